// prog_batch_api.h -- `batch` (C03) and `api` (C04) oracles.  Included by prog_drv.cc.

// run instructions one by one; returns the index of the first instruction that throws (-1: none)
template <class Var>
static int run_until_error(Exec<Var> &ex, const Program &P, string &kind, string &msg, vector<int> *first_value = nullptr, int upto = -1) {
  int n = upto < 0 ? (int)P.ins.size() : std::min(upto, (int)P.ins.size());
  for (int i = 0; i < n; ++i) {
    if (first_value) first_value->push_back((int)ex.v.size());
    size_t before = ex.v.size();
    try { ex.run(P.ins[i], i); }
    catch (Error &e) { ex.v.resize(before); kind = "Error"; msg = e.what(); return i; }
    catch (BadProgram &e) { ex.v.resize(before); kind = "bad-program"; msg = e.msg; return i; }
    catch (std::exception &e) { ex.v.resize(before); kind = "other-exception"; msg = e.what(); return i; }
  }
  return -1;
}

// =================================================================== batch (C03)
// (1) program(batch) == batch::concat_b program(sample b), values BIT-FOR-BIT (Naive devices);
// (2) gradient of every Parameter (a batch-1 operand) == sum_b of the per-sample gradients, within
//     rounding: |g - sum_b g_b| <= 64 * 2^-24 * (sum_b |g_b| + |g|) + 16 * 2^-24 * B * A, where A is the
//     largest ADJOINT magnitude anywhere on the tape (measured on the implementation: every
//     intermediate value gets a zero-valued Parameter "tap" added to it, whose gradient is that
//     value's adjoint), at least 1 -- the same per-sample terms are added in another association
//     order; the second summand covers terms that cancel exactly inside one sample (sparse
//     softmax-cross-entropy on a size-1 axis: gy*softmax - gy = 0) but not after batch folding
//     ((gy0+gy1+gy2) - gy0 - gy1 - gy2), and which are therefore invisible in |g_b|;
// (3) a batch-1 leaf behaves as B replicated copies (values bit-for-bit);
// (4) batch sizes other than equal-or-1 are rejected with Error by both APIs (Node: at creation),
//     for every binary / list / id-list function, and the same call with batch 1 or B is accepted.
static Program sample_of(const Program &P, uint32_t b) {
  Program Q = P;
  for (auto &I : Q.ins) {
    if (I.code == OP_IN && I.s.b > 1) { if (!(I.n.size() > 3 && I.n[3] > 0)) I.n[2] += (long long)b * (long long)I.s.volume(); I.s.b = 1; }
    else if ((I.code == OP_CONST || I.code == OP_ZEROS || I.code == OP_ONES || I.code == OP_RESHAPE) && I.has_s && I.s.b > 1) I.s.b = 1;
    else if ((I.code == OP_PICK || I.code == OP_SSCE) && I.n.size() > 2) { long long d = I.n[0], id = I.n[1 + b]; I.n = {d, id}; }
  }
  return Q;
}
// every single-output value v gets `v + tap` (tap: zero Parameter of v's per-sample shape); the taps'
// gradients are the adjoints of the tape.  Used only to measure the rounding scale.
static double adjoint_scale(const Program &P, DevCtx &dc, const FV &w) {
  vector<Shape> shp; vector<int> dev;
  { ParamSet ps; Graph g; Graph::set_default(g); Exec<Node> ex(dc, ps); ex.run_all(P);
    for (auto &n : ex.v) { shp.push_back(n.shape()); dev.push_back(&n.device() == dc.dev[1] ? 1 : 0); } }
  Program Q; Q.B = P.B; Q.w = P.w; Q.g0 = 0; vector<int> remap; int nv = 0;
  for (auto I : P.ins) {
    for (int &a : I.a) a = remap[a];
    int first = (int)remap.size(), no = I.nout();
    Q.ins.push_back(I);
    for (int j = 0; j < no; ++j) remap.push_back(nv + j);
    nv += no;
    if (no == 1 && I.code != OP_STOPGRAD) {
      Instr T(OP_PAR); T.s = Shp(shp[first].dims(), 1); T.has_s = true; T.n = {1, dev[first], 0, 0}; T.f = {0.f, 0.f};
      Q.ins.push_back(T); Q.ins.push_back(Gen::mk(OP_ADD, {nv - 1, nv})); remap[first] = nv + 1; nv += 2;
    }
  }
  Q.out = remap[P.out];
  double A = 1;
  ParamSet ps; Graph g; Graph::set_default(g); Exec<Node> ex(dc, ps);
  ex.run_all(Q); Node y = ex.v.at(Q.out);
  if (y.shape().size() != w.size()) return A;
  for (auto &e : ps.ps) e.second->reset_gradient();
  F::multiply(y, F::input<Node>(y.shape(), w, &y.device())).backward();
  for (auto &e : ps.ps) A = std::max(A, (double)maxabs(e.second->gradient().to_vector()));
  return A;
}
struct NodeRun { bool err; string what; Shape ys; FV y; vector<FV> grads; };
static NodeRun run_node_fb(const Program &P, DevCtx &dc, const FV *w) {
  NodeRun r; r.err = false;
  ParamSet ps; Graph g; Graph::set_default(g);
  Exec<Node> ex(dc, ps);
  try {
    ex.run_all(P);
    Node y = ex.v.at(P.out); r.ys = y.shape(); r.y = y.to_vector();
    if (w) {
      if (w->size() != r.ys.size()) { r.err = true; r.what = "weight size"; return r; }
      for (auto &e : ps.ps) e.second->reset_gradient();
      F::multiply(y, F::input<Node>(r.ys, *w, &y.device())).backward();
      for (auto &e : ps.ps) r.grads.push_back(e.second->gradient().to_vector());
    }
  } catch (Error &e) { r.err = true; r.what = e.what(); } catch (BadProgram &e) { r.err = true; r.what = e.msg; }
  return r;
}
static bool expect_reject(const Program &Q, DevCtx &dc, bool reject, string &why) {
  int last = (int)Q.ins.size() - 1; string kind, msg;
  { ParamSet ps; Graph g; Graph::set_default(g); Exec<Node> ex(dc, ps); int f = run_until_error(ex, Q, kind, msg);
    if (reject ? !(f == last && kind == "Error") : f != -1) { why = "Node API " + string(f < 0 ? "accepted" : "failed at instr " + S(f) + " (" + kind + ": " + msg + ")"); return false; } }
  { ParamSet ps; Exec<Tensor> ex(dc, ps); int f = run_until_error(ex, Q, kind, msg);
    if (reject ? !(f == last && kind == "Error") : f != -1) { why = "Tensor API " + string(f < 0 ? "accepted" : "failed at instr " + S(f) + " (" + kind + ": " + msg + ")"); return false; } }
  return true;
}
static Verdict check_batch(const Program &P, Stats &st) {
  DevCtx dc = g_devs->ctx(g_devmap); Device::set_default(*dc.dev[0]);
  for (auto &I : P.ins) if (op_is_batchfn(I.code) || op_is_random(I.code)) return Verdict::F("bad-program batch:: / random function in a batch-law program");
  NodeRun full = run_node_fb(P, dc, nullptr);
  if (full.err) return Verdict::F("build-error " + full.what);
  if (!all_finite(full.y)) return Verdict();
  FV w = weights(P.w, full.ys.size());
  full = run_node_fb(P, dc, &w);
  if (full.err) return Verdict::F("backward-error " + full.what);
  Verdict vd; const uint32_t B = full.ys.batch(); const size_t vol = full.ys.volume();
  if (B > 1) {
    if (B != P.B) return Verdict::F("batch-size result batch " + S(B) + " but the operands have batch " + S(P.B));
    vector<FV> gsum, gabs;
    for (uint32_t b = 0; b < B; ++b) {
      FV wb(w.begin() + b * vol, w.begin() + (b + 1) * vol);
      NodeRun s = run_node_fb(sample_of(P, b), dc, &wb);
      if (s.err) return Verdict::F("sample-error sample " + S(b) + ": " + s.what);
      if (s.ys.batch() != 1 || s.y.size() != vol) return Verdict::F("sample-shape sample " + S(b) + " has shape " + s.ys.to_string());
      for (size_t i = 0; i < vol; ++i) if (bits(s.y[i]) != bits(full.y[b * vol + i]))
        return Verdict::F("batch-law-value sample " + S(b) + " elem " + S(i) + ": batched=" + fmt(full.y[b * vol + i]) + " alone=" + fmt(s.y[i]));
      st.compared += (long)vol;
      if (gsum.empty()) { gsum.resize(s.grads.size()); gabs.resize(s.grads.size()); }
      for (size_t k = 0; k < s.grads.size(); ++k) {
        if (gsum[k].empty()) { gsum[k].assign(s.grads[k].size(), 0.f); gabs[k].assign(s.grads[k].size(), 0.f); }
        for (size_t i = 0; i < s.grads[k].size(); ++i) { gsum[k][i] += s.grads[k][i]; gabs[k][i] += std::fabs(s.grads[k][i]); }
      }
    }
    if (gsum.size() != full.grads.size()) return Verdict::F("grad-count");
    double gmax = 1;
    try { gmax = adjoint_scale(P, dc, w) * B; } catch (Error &e) { return Verdict::F(string("tap-error ") + e.what()); }
    for (size_t k = 0; k < gsum.size(); ++k) {
      for (size_t i = 0; i < gsum[k].size(); ++i) {
        double g = full.grads[k][i], s = gsum[k][i];
        double tol = 64 * EPS32 * (gabs[k][i] + std::fabs(g)) + 16 * EPS32 * gmax, err = std::fabs(g - s);
        st.coords++; st.max_err = std::max(st.max_err, err / tol);
        if (err > tol) return Verdict::F("grad-fold param " + S(k) + " elem " + S(i) + ": batched=" + fmt(g) + " sum of per-sample=" + fmt(s) + " tol=" + fmt(tol));
      }
    }
    vd.nontrivial = true;
  }
  if (P.B > 1) {
    // (3) replicated operand
    vector<int> cand; for (size_t i = 0; i < P.ins.size(); ++i) if ((P.ins[i].code == OP_PAR || P.ins[i].code == OP_IN) && P.ins[i].s.b == 1) cand.push_back((int)i);
    if (!cand.empty()) {
      Program Q = P; Instr &L = Q.ins[cand[P.w % cand.size()]];
      L.code = OP_IN; L.n.resize(4, 0); L.n[3] = (long long)L.s.volume(); L.s.b = P.B;
      NodeRun rep = run_node_fb(Q, dc, nullptr);
      if (rep.err) return Verdict::F("replicate-error " + rep.what);
      uint32_t br = rep.ys.batch();
      if (!(br == B || (B == 1 && br == P.B)) || rep.ys.volume() != vol) return Verdict::F("replicate-shape " + rep.ys.to_string() + " vs " + full.ys.to_string());
      for (uint32_t b = 0; b < br; ++b) for (size_t i = 0; i < vol; ++i)
        if (bits(rep.y[b * vol + i]) != bits(full.y[(B == 1 ? 0 : b) * vol + i]))
          return Verdict::F("replicate-value sample " + S(b) + " elem " + S(i) + ": replicated=" + fmt(rep.y[b * vol + i]) + " shared=" + fmt(full.y[(B == 1 ? 0 : b) * vol + i]));
      st.extra["replicated_checks"]++;
    }
    // (4) incompatible batch sizes
    if (B > 1) {
      Shp ys(full.ys); int out = P.out, dev = 0;
      { ParamSet ps; Graph g; Graph::set_default(g); Exec<Node> ex(dc, ps); ex.run_all(P); dev = &ex.v.at(out).device() == dc.dev[1] ? 1 : 0; }
      vector<uint32_t> dims(ys.d.begin(), ys.d.begin() + ys.depth());
      for (int variant = 0; variant < 23; ++variant) for (int bb = 0; bb < 3; ++bb) {
        uint32_t lb = bb == 0 ? B + 1 : bb == 1 ? B : 1;
        Program Q = P; int nv = Q.nvalues();
        auto addleaf = [&](const vector<uint32_t> &d) { Instr L(OP_IN); L.s = Shp(d, lb); L.has_s = true; L.n = {(long long)(P.w + variant), dev, 0, 0}; L.f = {0.5f, 1.5f}; Q.ins.push_back(L); return nv++; };
        static const int bops[] = {OP_ADD, OP_SUB, OP_MUL, OP_DIV, OP_POW};
        bool made = true;
        if (variant < 5) { int l = addleaf(dims); Q.ins.push_back(Gen::mk(bops[variant], {out, l})); }
        else if (variant < 10) { int l = addleaf(dims); Q.ins.push_back(Gen::mk(bops[variant - 5], {l, out})); }
        else if (variant < 15) { int l = addleaf({}); Q.ins.push_back(variant % 2 ? Gen::mk(bops[variant - 10], {l, out}) : Gen::mk(bops[variant - 10], {out, l})); }
        else if (variant == 15) { if (ys.depth() > 2) made = false; else { int l = addleaf({ys.at(1), 2}); Q.ins.push_back(Gen::mk(OP_MATMUL, {out, l})); } }
        else if (variant == 16) { if (ys.depth() > 2) made = false; else { int l = addleaf({2, ys.at(0)}); Q.ins.push_back(Gen::mk(OP_MATMUL, {l, out})); } }
        else if (variant == 17) { int l = addleaf(dims); Q.ins.push_back(Gen::mk(OP_CONCAT, {out, l}, {0})); }
        else if (variant == 18) { int l = addleaf(dims); Q.ins.push_back(Gen::mk(OP_SCERAW, {out, l}, {0})); }
        else if (variant == 19) { if (ys.depth() > 3) made = false; else { int l = addleaf({1, 1, ys.at(2), 1}); Q.ins.push_back(Gen::mk(OP_CONV, {out, l}, {0, 0, 1, 1, 1, 1})); } }
        else if (variant == 20 || variant == 22) { Instr I(variant == 20 ? OP_PICK : OP_SSCE); I.a = {out}; I.n = {0}; for (uint32_t q = 0; q < lb; ++q) I.n.push_back(0); Q.ins.push_back(I); }
        else { int l = addleaf(dims); Q.ins.push_back(Gen::mk(OP_SUMN, {out, l})); }
        if (!made) continue;
        string why;
        if (!expect_reject(Q, dc, bb == 0, why)) {
          Verdict f = Verdict::F(string(bb == 0 ? "batch-not-rejected" : "batch-wrongly-rejected") + " operand batch " + S(lb) + " against " + S(B) + ", call `" + print_instr(Q.ins.back()) + "`: " + why);
          return f;
        }
        st.extra[bb == 0 ? "incompatible_batch_rejected" : "compatible_batch_accepted"]++;
      }
    }
  }
  return vd;
}

// =================================================================== api (C04)
// The same program through the Node API (lazy) and the Tensor API (eager), same devices:
//  * every instruction the Tensor API rejects with Error must be rejected by the Node API WHEN THE
//    NODE IS CREATED; only a device mismatch between operands or an invalid distribution parameter of
//    a random:: function may surface at evaluation (it must surface there);
//  * an instruction the Tensor API accepts must be accepted by the Node API;
//  * Node::shape() read BEFORE anything is evaluated equals the eager tensor's shape;
//  * values bit-for-bit (values depending on a random:: function / enabled dropout are excluded).
static Verdict check_api(const Program &P, Stats &st) {
  DevCtx dc = g_devs->ctx(g_devmap); Device::set_default(*dc.dev[0]);
  // taint
  vector<bool> taint; { for (auto &I : P.ins) { bool t = op_is_random(I.code) || (I.code == OP_DROPOUT && !I.n.empty() && I.n[0] != 0);
      for (int a : I.a) if (a >= 0 && a < (int)taint.size()) t = t || taint[a]; for (int j = 0; j < I.nout(); ++j) taint.push_back(t); } }
  ParamSet psT; Exec<Tensor> exT(dc, psT); string kT, mT; vector<int> fvT;
  int fT = run_until_error(exT, P, kT, mT, &fvT);
  if (fT >= 0 && kT != "Error") return Verdict::F("tensor-api-" + kT + " at instr " + S(fT) + " `" + print_instr(P.ins[fT]) + "`: " + mT);
  ParamSet psN; Graph g; Graph::set_default(g); Exec<Node> exN(dc, psN); string kN, mN; vector<int> fvN;
  int upto = fT >= 0 ? fT + 1 : -1;
  int fN = run_until_error(exN, P, kN, mN, &fvN, upto);
  if (fN >= 0 && kN != "Error") return Verdict::F("node-api-" + kN + " at instr " + S(fN) + " `" + print_instr(P.ins[fN]) + "`: " + mN);
  // shapes BEFORE evaluation
  vector<Shape> shN; for (auto &n : exN.v) shN.push_back(n.shape());
  Verdict vd;
  if (fN >= 0 && (fT < 0 || fN < fT))
    return Verdict::F("node-rejects instr " + S(fN) + " `" + print_instr(P.ins[fN]) + "` (" + mN + ") which the Tensor API accepts");
  size_t ncmp = exT.v.size();   // values that exist in the eager run
  if (fT >= 0) {
    st.invalid++;
    const Instr &I = P.ins[fT];
    if (fN == fT) { st.rejected++; vd.nontrivial = true; }
    else {
      // accepted at creation: allowed only for the two deferred classes, and evaluation must then fail
      std::set<Device *> ds; for (int a : I.a) if (a >= 0 && a < (int)exN.v.size()) ds.insert(&exN.v[a].device());
      bool lazy_ok = op_is_random(I.code) || ds.size() > 1;
      if (!lazy_ok) return Verdict::F("node-accepts instr " + S(fT) + " `" + print_instr(I) + "` at creation; the Tensor API rejects it: " + mT);
      bool threw = false; string how;
      for (size_t k = ncmp; k < exN.v.size(); ++k) {
        try { exN.v[k].to_vector(); } catch (Error &) { threw = true; } catch (std::exception &e) { how = e.what(); }
      }
      if (!threw) return Verdict::F("node-never-rejects instr " + S(fT) + " `" + print_instr(I) + "` (deferred class) even at evaluation " + how);
      st.extra["rejected_at_evaluation"]++; vd.nontrivial = true;
    }
  }
  if (exN.v.size() < ncmp) return Verdict::F("value-count node=" + S(exN.v.size()) + " tensor=" + S(ncmp));
  for (size_t k = 0; k < ncmp; ++k) {
    if (shN[k] != exT.v[k].shape()) return Verdict::F("static-shape value " + S(k) + ": Node::shape()=" + shN[k].to_string() + " tensor=" + exT.v[k].shape().to_string());
  }
  for (size_t k = 0; k < ncmp; ++k) {
    FV a, b;
    try { a = exN.v[k].to_vector(); } catch (Error &e) { return Verdict::F("node-eval-error value " + S(k) + ": " + e.what()); }
    b = exT.v[k].to_vector();
    if (&exN.v[k].device() != &exT.v[k].device()) return Verdict::F("device value " + S(k));
    if (taint[k]) continue;
    if (a.size() != b.size()) return Verdict::F("value-size value " + S(k));
    // Naive: bit-for-bit.  Eigen results are not a function of the inputs at bit level (packet vs scalar
    // code path depends on the malloc alignment of the result buffer), so with an Eigen device in the
    // map the comparison is 1e-4 * max(1, max|v|).
    const bool eig = g_devmap.find('E') != string::npos; const double mx = std::max(1.0, (double)std::max(maxabs(a), maxabs(b)));
    for (size_t i = 0; i < a.size(); ++i) {
      if (std::isnan(a[i]) && std::isnan(b[i])) continue;
      bool bad = eig ? !(std::fabs((double)a[i] - (double)b[i]) <= 1e-4 * mx) : bits(a[i]) != bits(b[i]);
      if (bad) return Verdict::F("value value " + S(k) + " elem " + S(i) + ": node=" + fmt(a[i]) + " tensor=" + fmt(b[i]));
    }
    st.compared += (long)a.size();
  }
  if (fT < 0) vd.nontrivial = true;
  return vd;
}
