// Runs optimizer histories (C12) and checkpoint/resume runs (C15) on the REAL primitiv
// optimizers, parameters, models and files.  Same case file and output format as
// ocaml/optim_driver.ml (see there for the operations).
#include <primitiv/primitiv.h>
#include <unistd.h>
#include <sys/stat.h>
#include <cmath>
#include <cstring>
#include <cstdio>
#include <cstdlib>
#include <cstdint>
#include <new>
#include <algorithm>
#include <functional>
#include <map>
#include <memory>
#include <unordered_set>
#include "pvh.h"
using namespace primitiv;
using namespace pvh;
namespace F = primitiv::functions;

static unsigned bits(float f) { unsigned u; std::memcpy(&u, &f, 4); return u; }
static float fbits(const std::string &s) { unsigned u = static_cast<unsigned>(std::stoul(s, nullptr, 16)); float f; std::memcpy(&f, &u, 4); return f; }
static std::vector<float> vec(const std::string &s) { std::vector<float> v; for (auto &t : split(s, ',')) v.push_back(fbits(t)); return v; }
static std::string hex(float f) { char b[16]; if (f != f) return "7fc00000"; std::snprintf(b, sizeof b, "%08x", bits(f)); return b; }
static std::string pvec(const std::vector<float> &v) {
  if (v.empty()) return "-";
  std::string o; for (size_t i = 0; i < v.size(); ++i) { if (i) o += ','; o += hex(v[i]); } return o;
}
static Shape shape_for(size_t n) { return (n >= 4 && n % 2 == 0) ? Shape({2, static_cast<std::uint32_t>(n / 2)}) : Shape({static_cast<std::uint32_t>(n)}); }

static const char *KNOWN_STATS[] = {"AdaDelta.m1", "AdaDelta.m2", "AdaGrad.m", "Adam.m1", "Adam.m2", "MomentumSGD.m", "RMSProp.m", "X.custom"};

static std::unique_ptr<Optimizer> make_opt(const std::string &k, const std::vector<float> &h) {
  if (k == "sgd" && h.size() == 1) return std::unique_ptr<Optimizer>(new optimizers::SGD(h[0]));
  if (k == "msgd" && h.size() == 2) return std::unique_ptr<Optimizer>(new optimizers::MomentumSGD(h[0], h[1]));
  if (k == "adagrad" && h.size() == 2) return std::unique_ptr<Optimizer>(new optimizers::AdaGrad(h[0], h[1]));
  if (k == "rmsprop" && h.size() == 3) return std::unique_ptr<Optimizer>(new optimizers::RMSProp(h[0], h[1], h[2]));
  if (k == "adadelta" && h.size() == 2) return std::unique_ptr<Optimizer>(new optimizers::AdaDelta(h[0], h[1]));
  if (k == "adam" && h.size() == 4) return std::unique_ptr<Optimizer>(new optimizers::Adam(h[0], h[1], h[2], h[3]));
  throw std::runtime_error("bad optimizer header");
}
static std::unique_ptr<Optimizer> default_opt(const std::string &k) {
  if (k == "sgd") return std::unique_ptr<Optimizer>(new optimizers::SGD());
  if (k == "msgd") return std::unique_ptr<Optimizer>(new optimizers::MomentumSGD());
  if (k == "adagrad") return std::unique_ptr<Optimizer>(new optimizers::AdaGrad());
  if (k == "rmsprop") return std::unique_ptr<Optimizer>(new optimizers::RMSProp());
  if (k == "adadelta") return std::unique_ptr<Optimizer>(new optimizers::AdaDelta());
  if (k == "adam") return std::unique_ptr<Optimizer>(new optimizers::Adam());
  throw std::runtime_error("bad kind");
}
static std::vector<float> hypers(const Optimizer &o) {
  if (auto p = dynamic_cast<const optimizers::SGD *>(&o)) return {p->eta()};
  if (auto p = dynamic_cast<const optimizers::MomentumSGD *>(&o)) return {p->eta(), p->momentum()};
  if (auto p = dynamic_cast<const optimizers::AdaGrad *>(&o)) return {p->eta(), p->eps()};
  if (auto p = dynamic_cast<const optimizers::RMSProp *>(&o)) return {p->eta(), p->alpha(), p->eps()};
  if (auto p = dynamic_cast<const optimizers::AdaDelta *>(&o)) return {p->rho(), p->eps()};
  if (auto p = dynamic_cast<const optimizers::Adam *>(&o)) return {p->alpha(), p->beta1(), p->beta2(), p->eps()};
  return {};
}

// ---- the same iteration order in every world of a case
// std::unordered_set<Parameter *> (Optimizer::params_) iterates in an order that depends on the
// addresses modulo the bucket count, and the clipping norm is summed in that order: two worlds
// with other addresses give results that differ by rounding (and RMSProp amplifies that without
// bound), which no tolerance separates from a real resume defect.  So the i-th Parameter of every
// world lives at the same offset of a slot, and the distance between slots is a multiple of every
// bucket count the set goes through while it grows to MAXP elements: address mod bucket_count, hence
// the iteration order after the same insertions, is the same in all worlds.  The orders are still
// printed (ordU= ordR= ordF= ordE=); the engine compares bitwise whenever they agree.
struct Slots {
  static const size_t MAXP = 8, NSLOT = 8;
  size_t psize, stride; char *base; bool used[NSLOT];
  Slots() : used() {
    psize = (sizeof(Parameter) + 63) / 64 * 64;
    auto gcd = [](size_t a, size_t b) { while (b) { size_t t = a % b; a = b; b = t; } return a; };
    size_t l = 64;
    static char probe_obj[MAXP];
    std::unordered_set<char *> probe;
    for (size_t i = 0; i < MAXP; ++i) { probe.insert(probe_obj + i); const size_t b = probe.bucket_count(); l = l / gcd(l, b) * b; }
    stride = (psize * MAXP + l - 1) / l * l;
    // the base itself is a multiple of l: the order does not depend on the process image either
    char *raw = static_cast<char *>(std::malloc(stride * NSLOT + l));
    base = raw + (l - reinterpret_cast<std::uintptr_t>(raw) % l) % l;
  }
  int take() { for (size_t i = 0; i < NSLOT; ++i) if (!used[i]) { used[i] = true; return static_cast<int>(i); } return -1; }
  void give(int i) { if (i >= 0) used[i] = false; }
  void *at(int slot, size_t i) { return (slot >= 0 && i < MAXP) ? base + slot * stride + i * psize : nullptr; }
};
static Slots &slots() { static Slots s; return s; }
struct PDel { bool heap; void operator()(Parameter *p) const { if (heap) delete p; else p->~Parameter(); } };
typedef std::unique_ptr<Parameter, PDel> PPtr;

struct World {
  std::string kind;
  Device *dev;
  std::unique_ptr<Optimizer> opt;
  std::vector<PPtr> params;
  int slot;
  World() : dev(nullptr), slot(slots().take()) {}
  ~World() { params.clear(); slots().give(slot); }
  World(const World &) = delete;
  World &operator=(const World &) = delete;
  // the next Parameter of this world, at its pinned address (heap beyond MAXP parameters / NSLOT worlds)
  template <typename... A> void new_param(A &&... a) {
    void *where = slots().at(slot, params.size());
    if (where) params.emplace_back(PPtr(new (where) Parameter(std::forward<A>(a)...), PDel{false}));
    else params.emplace_back(PPtr(new Parameter(std::forward<A>(a)...), PDel{true}));
  }
  std::vector<int> reg;   // mirror of the registered set, in order of first successful add
  // same insertions as Optimizer::params_, hence the same iteration order
  std::unordered_set<Parameter *> mirror;
  void sync() { for (int i : reg) mirror.insert(params[i].get()); }
  std::string order() const {
    std::string o;
    for (Parameter *p : mirror)
      for (size_t i = 0; i < params.size(); ++i)
        if (params[i].get() == p) { if (!o.empty()) o += ','; o += std::to_string(i); }
    return o.empty() ? "-" : o;
  }
};

static std::string dump(const World &w, bool with_grad) {
  std::ostringstream o;
  o << 'E' << w.opt->get_epoch() << " S=" << hex(w.opt->get_learning_rate_scaling()) << ',' << hex(w.opt->get_weight_decay())
    << ',' << hex(w.opt->get_gradient_clipping()) << " H=" << pvec(hypers(*w.opt));
  for (size_t i = 0; i < w.params.size(); ++i) {
    const Parameter &p = *w.params[i];
    o << " P" << i << '[';
    if (!p.valid()) { o << "invalid]"; continue; }
    o << "v=" << pvec(p.value().to_vector());
    if (with_grad) o << "|g=" << pvec(p.gradient().to_vector());
    for (const char *n : KNOWN_STATS) if (p.has_stats(n)) o << '|' << n << '=' << pvec(p.stats(n).to_vector());
    o << ']';
  }
  return o.str();
}

static std::string pname(size_t i) { char b[16]; std::snprintf(b, sizeof b, "p%04zu", i); return b; }

struct HaltCase { std::string msg; };

// the deterministic gradient oracle of the C15 runs (same arithmetic as optim_driver.ml)
static void train_simple(World &w, int t0, int n) {
  for (int t = t0; t < t0 + n; ++t) {
    w.opt->reset_gradients();
    std::vector<std::vector<float>> gs(w.params.size());
    for (size_t i = 0; i < w.params.size(); ++i) {
      Parameter &p = *w.params[i];
      if (!p.valid()) continue;
      std::vector<float> v = p.value().to_vector();
      gs[i].resize(v.size());
      const float a = 0.3f;
      for (size_t j = 0; j < v.size(); ++j) {
        const float b = static_cast<float>(static_cast<int>((7 * t + 3 * static_cast<int>(i) + 5 * static_cast<int>(j)) % 11) - 5) / 8.0f;
        volatile float prod = v[j] * a;
        gs[i][j] = prod + b;
      }
    }
    for (size_t i = 0; i < w.params.size(); ++i) {
      Parameter &p = *w.params[i];
      if (!p.valid()) continue;
      p.gradient() += p.device().new_tensor_by_vector(p.shape(), gs[i]);
    }
    w.opt->update();
  }
}

// gradients from a real computation graph (a new Graph per step, on the world's device)
static void train_graph(World &w, int t0, int n) {
  for (int t = t0; t < t0 + n; ++t) {
    w.opt->reset_gradients();
    Graph g;
    Graph::set_default(g);
    Node loss; bool first = true;
    for (size_t i = 0; i < w.params.size(); ++i) {
      Parameter &p = *w.params[i];
      if (!p.valid()) continue;
      const std::uint32_t sz = p.shape().size();
      std::vector<float> x(sz);
      for (std::uint32_t j = 0; j < sz; ++j) x[j] = static_cast<float>(static_cast<int>((5 * t + 7 * i + 3 * j) % 13) - 6) / 4.0f;
      Node wn = F::parameter<Node>(p);
      Node xn = F::input<Node>(p.shape(), x, w.dev);
      Node y = F::tanh(wn * xn + wn * wn * 0.5f);
      Node l = F::sum(F::flatten(y), 0);
      loss = first ? l : loss + l;
      first = false;
    }
    if (!first) g.backward(loss);
    w.opt->update();
  }
}

static std::string ckpt_dir() {
  static std::string d;
  if (d.empty()) {
    const char *e = std::getenv("PV_CKPT_DIR");
    d = e ? e : "/verif/_work/ckpt-tmp";
    ::mkdir(d.c_str(), 0777);
  }
  return d;
}

static devices::Naive *g_dev0, *g_dev1;
static devices::Eigen *g_dev2;


static void apply(World &w, const std::vector<std::string> &t, std::vector<std::string> *out, const std::vector<std::vector<std::string>> &prefix);

static void build_prefix(World &w, const std::vector<std::vector<std::string>> &prefix) {
  for (auto &op : prefix) apply(w, op, nullptr, {});
}

// resume: fresh parameters and optimizer, load both files, register
static void resume(World &f, const World &src, const std::string &order, const std::string &mf, const std::string &of) {
  f.kind = src.kind;
  f.opt = default_opt(src.kind);
  Model m;
  for (size_t i = 0; i < src.params.size(); ++i) {
    if (order == "0") f.new_param();
    else f.new_param(src.params[i]->shape(), std::vector<float>(src.params[i]->shape().size(), 0.0f), *f.dev);
    m.add(pname(i), *f.params.back());
  }
  if (order == "0") {
    m.load(mf, true, *f.dev);
    f.opt->load(of);
    for (int i : src.reg) f.opt->add(*f.params[i]);
  } else {
    for (int i : src.reg) f.opt->add(*f.params[i]);
    m.load(mf, true, *f.dev);
    f.opt->load(of);
  }
  f.reg = src.reg;
  f.sync();
}

static void apply(World &w, const std::vector<std::string> &t, std::vector<std::string> *out, const std::vector<std::vector<std::string>> &prefix) {
  auto emit = [&](const std::string &s) { if (out) out->push_back(s); };
  const std::string &f = t.at(0);
  auto guarded = [&](const std::string &tag, const std::function<void()> &body) {
    std::string r;
    try { body(); r = " ok "; }
    catch (Error &) { r = " err "; }
    catch (std::exception &) { r = " other-exception "; }
    emit(tag + r + dump(w, true));
  };
  if (f == "new") {
    w.opt = make_opt(t.at(1), vec(t.at(2)));
  } else if (f == "param") {
    if (t.at(1) == "-") w.new_param();
    else { auto v = vec(t[1]); w.new_param(shape_for(v.size()), v, *w.dev); }
  } else if (f == "grad") {
    guarded("grad", [&] { w.params.at(std::stoi(t.at(1)))->gradient().reset_by_vector(vec(t.at(2))); });
  } else if (f == "stat") {
    guarded("stat", [&] { Parameter &p = *w.params.at(std::stoi(t.at(1)));
      if (!p.has_stats(t.at(2))) p.add_stats(t[2], p.shape());
      p.stats(t[2]).reset_by_vector(vec(t.at(3))); });
  } else if (f == "add") {
    guarded("add", [&] { int i = std::stoi(t.at(1)); w.opt->add(*w.params.at(i));
      if (std::find(w.reg.begin(), w.reg.end(), i) == w.reg.end()) w.reg.push_back(i);
      w.sync(); });
  } else if (f == "addm") {
    // a Model whose (sorted) names follow the order of the list
    std::vector<int> l; for (auto &s : split(t.at(1), ',')) l.push_back(std::stoi(s));
    std::string r;
    Model m;
    try {
      // the same Parameter twice in one Model is rejected by Model::add itself: register it once
      std::vector<int> seen;
      for (size_t k = 0; k < l.size(); ++k) {
        if (std::find(seen.begin(), seen.end(), l[k]) != seen.end()) continue;
        seen.push_back(l[k]);
        m.add(pname(k), *w.params.at(l[k]));
      }
      try { w.opt->add(m); r = "addm ok "; } catch (Error &) { r = "addm err "; }
      // mirror: parameters before the first invalid one (or all) are registered now
      for (int i : seen) {
        if (std::find(w.reg.begin(), w.reg.end(), i) != w.reg.end()) continue;
        if (!w.params[i]->valid() && w.kind != "sgd") break;
        w.reg.push_back(i);
      }
      w.sync();
    } catch (std::exception &) { r = "addm other-exception "; }
    emit(r + dump(w, true));
  } else if (f == "upd") {
    const std::string ord = w.order();
    try { w.opt->update(); } catch (Error &) { throw HaltCase{"upd err halt"}; }
    emit("upd ok order=" + ord + " " + dump(w, true));
  } else if (f == "reset") {
    try { w.opt->reset_gradients(); } catch (Error &) { throw HaltCase{"reset err halt"}; }
    emit("reset ok " + dump(w, true));
  } else if (f == "lr") { guarded("lr", [&] { w.opt->set_learning_rate_scaling(fbits(t.at(1))); });
  } else if (f == "l2") { guarded("l2", [&] { w.opt->set_weight_decay(fbits(t.at(1))); });
  } else if (f == "clip") { guarded("clip", [&] { w.opt->set_gradient_clipping(fbits(t.at(1))); });
  } else if (f == "epoch") { guarded("epoch", [&] { w.opt->set_epoch(u32(t.at(1))); });
  } else if (f == "setcfg") {
    guarded("setcfg", [&] {
      std::unordered_map<std::string, std::uint32_t> uc; std::unordered_map<std::string, float> fc;
      for (auto &kv : split(t.at(1), ',')) { auto p = kv.find('='); uc.emplace(kv.substr(0, p), u32(kv.substr(p + 1))); }
      for (auto &kv : split(t.at(2), ',')) { auto p = kv.find('='); fc.emplace(kv.substr(0, p), fbits(kv.substr(p + 1))); }
      w.opt->set_configs(uc, fc); });
  } else if (f == "getcfg") {
    std::unordered_map<std::string, std::uint32_t> uc; std::unordered_map<std::string, float> fc;
    w.opt->get_configs(uc, fc);
    std::map<std::string, std::string> us, fs;
    for (auto &kv : uc) us[kv.first] = std::to_string(kv.second);
    for (auto &kv : fc) fs[kv.first] = hex(kv.second);
    std::string o = "cfg u:"; bool c = false;
    for (auto &kv : us) { if (c) o += ','; o += kv.first + "=" + kv.second; c = true; }
    o += " f:"; c = false;
    for (auto &kv : fs) { if (c) o += ','; o += kv.first + "=" + kv.second; c = true; }
    emit(o);
  } else if (f == "run" || f == "rung") {
    const int k = std::stoi(t.at(1)), n = std::stoi(t.at(2));
    const std::string mode = t.at(3), order = f == "run" ? t.at(4) : "0";
    const bool graph = f == "rung";
    auto train = [&](World &x, int t0, int m) { if (graph) train_graph(x, t0, m); else train_simple(x, t0, m); };
    if (!out) { train(w, 0, k + n); return; }   // replay of an earlier run: only its uninterrupted part
    std::string us = "err", rs = "err", ues = "err", ords = "ordU=" + w.order(), orde;
    // Both sides of a resume comparison live on the SAME backend.  mode 2 = the whole comparison on
    // devices::Eigen: a third world `ue` replays the history and runs k+n uninterrupted steps there
    // (printed after ` UE `), and the interrupted world is built, trained, saved and resumed on
    // Eigen as well.  `w` itself always stays on Naive (the model follows it, later operations
    // continue from it).  Naive against Eigen is backend equivalence, C08's subject, not this one.
    const bool eig = mode == "2";
    Device *cdev = eig ? static_cast<Device *>(g_dev2) : w.dev;
    // the interrupted run starts from an identical second world (the history replayed)
    World r0; r0.kind = w.kind; r0.dev = cdev;
    try {
      build_prefix(r0, prefix);
      ords += " ordR=" + r0.order();
      if (eig) {
        World ue; ue.kind = w.kind; ue.dev = cdev;
        build_prefix(ue, prefix);
        orde = " ordE=" + ue.order();
        try { train(ue, 0, k + n); ues = dump(ue, false); } catch (Error &) {}
      }
      try { train(w, 0, k + n); us = dump(w, false); } catch (Error &) {}
      try {
        train(r0, 0, k);
        char mf[256], of[256];
        std::snprintf(mf, sizeof mf, "%s/%d.model", ckpt_dir().c_str(), static_cast<int>(::getpid()));
        std::snprintf(of, sizeof of, "%s/%d.optimizer", ckpt_dir().c_str(), static_cast<int>(::getpid()));
        Model m;
        for (size_t i = 0; i < r0.params.size(); ++i) m.add(pname(i), *r0.params[i]);
        m.save(mf, true);
        r0.opt->save(of);
        World fr;
        fr.dev = mode == "1" ? static_cast<Device *>(g_dev1) : cdev;
        resume(fr, r0, order, mf, of);
        ::unlink(mf); ::unlink(of);
        ords += " ordF=" + fr.order() + orde;
        train(fr, k, n);
        rs = dump(fr, false);
      } catch (Error &) {}
    } catch (HaltCase &) {}
    emit(std::string(graph ? "rung " : "run ") + ords + " U " + us + " R " + rs + (eig ? " UE " + ues : std::string()));
  } else emit("badop");
}

int main() {
  devices::Naive dev0, dev1; devices::Eigen dev2;
  g_dev0 = &dev0; g_dev1 = &dev1; g_dev2 = &dev2;
  Device::set_default(dev0);
  std::string line;
  while (std::getline(std::cin, line)) {
    std::vector<std::vector<std::string>> ops;
    for (auto &o : split(line, ';')) { auto t = tokens(o); if (!t.empty()) ops.push_back(t); }
    if (ops.empty()) { std::cout << "\n"; continue; }
    std::vector<std::string> out;
    try {
      World w; w.dev = &dev0; w.kind = ops[0].at(1);
      std::vector<std::vector<std::string>> prefix;
      std::vector<std::string> head = {"new", ops[0].at(1), ops[0].at(2)};
      for (size_t i = 0; i < ops.size(); ++i) {
        if (i == 0) { w.opt = make_opt(w.kind, vec(ops[0].at(2))); prefix.push_back(head); continue; }
        apply(w, ops[i], &out, prefix);
        prefix.push_back(ops[i]);
      }
    } catch (HaltCase &h) { out.push_back(h.msg); }
    catch (std::exception &e) { out.push_back(std::string("badcase ") + e.what()); }
    for (size_t i = 0; i < out.size(); ++i) { if (i) std::cout << " ; "; std::cout << out[i]; }
    std::cout << "\n";
  }
  return 0;
}
