// Dense softmax_cross_entropy(Node x, Node t, dim): gradient w.r.t. x versus central finite
// differences, for a normalised target (must agree) and an unnormalised one (known finding D11).
#include <primitiv/primitiv.h>
#include <cmath>
#include <iostream>
using namespace primitiv;
namespace F = primitiv::functions;
static double fwd(Parameter &px, const std::vector<float> &t, Device &dev) {
  Graph g; Graph::set_default(g);
  Node x = F::parameter<Node>(px);
  Node tt = F::input<Node>(Shape({2}), t, dev);
  return F::softmax_cross_entropy(x, tt, 0).to_vector()[0];
}
static int probe(const char *tag, std::vector<float> t, Device &dev) {
  std::vector<float> xv = {0.5f, -0.25f};
  Parameter px(Shape({2}), xv, dev);
  {
    Graph g; Graph::set_default(g);
    Node x = F::parameter<Node>(px);
    Node tt = F::input<Node>(Shape({2}), t, dev);
    Node y = F::softmax_cross_entropy(x, tt, 0);
    px.reset_gradient();
    y.backward();
  }
  std::vector<float> gr = px.gradient().to_vector();
  int bad = 0;
  for (int i = 0; i < 2; ++i) {
    const float h = 1e-2f;
    std::vector<float> p = xv, m = xv; p[i] += h; m[i] -= h;
    px.value().reset_by_vector(p); double fp = fwd(px, t, dev);
    px.value().reset_by_vector(m); double fm = fwd(px, t, dev);
    px.value().reset_by_vector(xv);
    double fd = (fp - fm) / (2 * h);
    if (std::fabs(fd - gr[i]) > 2e-2 * std::max(1.0, std::fabs(fd))) { std::cout << tag << " elem " << i << " backward=" << gr[i] << " finite-diff=" << fd << "\n"; ++bad; }
  }
  return bad;
}
int main() {
  devices::Naive dev; Device::set_default(dev);
  try {
    if (probe("FAIL normalised-t", {0.25f, 0.75f}, dev) == 0) std::cout << "ok normalised-t\n";
    probe("D11 mismatch t=(2,0)", {2.0f, 0.0f}, dev);
  } catch (Error &e) { std::cout << "FAIL exception " << e.what() << "\n"; }
  return 0;
}
