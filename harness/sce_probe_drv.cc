// Dense softmax_cross_entropy(Node x, Node t, dim): gradient w.r.t. x versus central finite
// differences of the implementation's own forward, on devices::Naive and devices::Eigen, at several
// points x, for
//   * normalised targets (sum t = 1): backward must agree with the finite difference
//       -> `ok normalised-t <dev> x=(..) t=(..)`   or   `FAIL normalised-t ...`
//   * targets with sum t != 1 (known finding D11): the registered defect is EXACTLY
//       backward = softmax(x) - t     while     d/dx forward = softmax(x) * sum(t) - t
//     (Coq: C01_real_sce_derivative_general).  `D11 mismatch ...` is printed only when both equations
//     hold on every coordinate (softmax computed here in double); when backward agrees with the finite
//     difference (the defect is gone) `ok sum-t-not-1 ...`; anything else is `FAIL sum-t-not-1 ...`
//     (a wrong gradient that is NOT the registered term must not hide behind the finding).
// Last line: `DONE normalised=<probes> ok=<passed> other=<probes>`; a missing DONE line or a non-zero
// exit status means the probe itself failed (engines/c01.py checks both).
#include <primitiv/primitiv.h>
#include <cmath>
#include <iostream>
#include <sstream>
using namespace primitiv;
namespace F = primitiv::functions;
typedef std::vector<float> V;

static std::string show(const V &v) {
  std::ostringstream s; s << "(";
  for (size_t i = 0; i < v.size(); ++i) s << (i ? "," : "") << v[i];
  s << ")"; return s.str();
}
static double fwd(Parameter &px, const V &t, Device &dev) {
  Graph g; Graph::set_default(g);
  Node x = F::parameter<Node>(px);
  Node tt = F::input<Node>(Shape({static_cast<std::uint32_t>(t.size())}), t, dev);
  return F::softmax_cross_entropy(x, tt, 0).to_vector()[0];
}
static bool close(double a, double b, double rel) { return std::fabs(a - b) <= rel * std::fmax(1.0, std::fmax(std::fabs(a), std::fabs(b))); }

// 0: backward = finite difference; 1: exactly the D11 term; 2: anything else.  `detail` describes the worst coordinate.
static int probe(const V &xv, const V &t, Device &dev, std::string &detail) {
  const std::uint32_t n = static_cast<std::uint32_t>(xv.size());
  Parameter px(Shape({n}), xv, dev);
  {
    Graph g; Graph::set_default(g);
    Node x = F::parameter<Node>(px);
    Node tt = F::input<Node>(Shape({n}), t, dev);
    Node y = F::softmax_cross_entropy(x, tt, 0);
    px.reset_gradient();
    y.backward();
  }
  const V gr = px.gradient().to_vector();
  double mx = xv[0], z = 0, st = 0;
  for (float v : xv) mx = std::fmax(mx, v);
  for (float v : xv) z += std::exp(v - mx);
  for (float v : t) st += v;
  bool all_fd = true, all_d11 = true;
  std::ostringstream d;
  for (std::uint32_t i = 0; i < n; ++i) {
    const float h = 1e-2f;
    V p = xv, m = xv; p[i] += h; m[i] -= h;
    px.value().reset_by_vector(p); const double fp = fwd(px, t, dev);
    px.value().reset_by_vector(m); const double fm = fwd(px, t, dev);
    px.value().reset_by_vector(xv);
    const double fd = (fp - fm) / (static_cast<double>(p[i]) - static_cast<double>(m[i]));
    const double sm = std::exp(xv[i] - mx) / z;
    const bool is_fd = close(gr[i], fd, 2e-3);
    const bool is_d11 = close(gr[i], sm - t[i], 2e-4) && close(fd, sm * st - t[i], 2e-3);
    if (!is_fd || !is_d11) d << " elem " << i << " backward=" << gr[i] << " finite-diff=" << fd << " softmax-t=" << sm - t[i] << " softmax*sum(t)-t=" << sm * st - t[i];
    all_fd = all_fd && is_fd;
    all_d11 = all_d11 && is_d11;
  }
  detail = d.str();
  return all_fd ? 0 : (all_d11 ? 1 : 2);
}

int main() {
  devices::Naive naive; devices::Eigen eigen;
  const std::vector<V> xs2 = {{0.5f, -0.25f}, {-1.5f, 2.0f}, {3.0f, 2.5f}};
  const std::vector<V> ts2 = {{0.25f, 0.75f}, {1.0f, 0.0f}, {0.5f, 0.5f}};
  const std::vector<V> xs3 = {{0.5f, -0.25f, 1.0f}, {-2.0f, 0.0f, 0.75f}};
  const std::vector<V> ts3 = {{0.125f, 0.5f, 0.375f}, {0.0f, 0.0f, 1.0f}};
  const std::vector<V> us2 = {{2.0f, 0.0f}, {0.25f, 0.25f}, {1.0f, 1.5f}};     // sum t != 1
  int nn = 0, nok = 0, no = 0;
  try {
    for (int di = 0; di < 2; ++di) {
      Device &dev = di ? static_cast<Device &>(eigen) : static_cast<Device &>(naive);
      Device::set_default(dev);
      const char *dn = di ? "eigen" : "naive";
      for (int dim3 = 0; dim3 < 2; ++dim3)
        for (const V &x : (dim3 ? xs3 : xs2))
          for (const V &t : (dim3 ? ts3 : ts2)) {
            std::string det; ++nn;
            if (probe(x, t, dev, det) == 0) { ++nok; std::cout << "ok normalised-t " << dn << " x=" << show(x) << " t=" << show(t) << "\n"; }
            else std::cout << "FAIL normalised-t " << dn << " x=" << show(x) << " t=" << show(t) << det << "\n";
          }
      for (const V &x : xs2)
        for (const V &t : us2) {
          std::string det; ++no;
          const int r = probe(x, t, dev, det);
          const char *tag = r == 0 ? "ok sum-t-not-1 " : (r == 1 ? "D11 mismatch " : "FAIL sum-t-not-1 ");
          std::cout << tag << dn << " x=" << show(x) << " t=" << show(t) << det << "\n";
        }
    }
  } catch (Error &e) { std::cout << "FAIL exception " << e.what() << "\n"; }
  std::cout << "DONE normalised=" << nn << " ok=" << nok << " other=" << no << "\n";
  return 0;
}
