// prog_shrink.h -- shrink candidates of a program (printed one per line; engines/progcheck.py
// re-runs the driver with --replay on them and keeps a candidate that still FAILs the same way).
// Candidates, smallest first: truncations (an earlier value becomes the output), dead-code
// elimination, bypassing a shape-preserving instruction, replacing a computed value by a fresh
// input leaf with the observed value range, parameter -> input.

// keep the instructions needed for the roots: P.out and the LAST instruction (which is the
// failing call of an invalid program and has no value of its own)
static Program dce(const Program &P) {
  auto vm = P.value_map(); int ni = (int)P.ins.size();
  vector<bool> need(ni, false);
  if (ni) need[ni - 1] = true;
  if (P.out >= 0 && P.out < (int)vm.size()) need[vm[P.out].first] = true;
  for (int i = ni - 1; i >= 0; --i) if (need[i]) for (int a : P.ins[i].a) if (a >= 0 && a < (int)vm.size()) need[vm[a].first] = true;
  Program Q; Q.B = P.B; Q.w = P.w; Q.g0 = P.g0; vector<int> remap(vm.size(), -1); int nv = 0, ov = 0;
  for (int i = 0; i < ni; ++i) {
    int no = P.ins[i].nout();
    if (need[i]) {
      Instr I = P.ins[i]; for (int &a : I.a) a = (a >= 0 && a < (int)remap.size()) ? remap[a] : -1;
      Q.ins.push_back(I); for (int j = 0; j < no; ++j) remap[ov + j] = nv + j; nv += no;
    }
    ov += no;
  }
  Q.out = (P.out >= 0 && P.out < (int)remap.size() && remap[P.out] >= 0) ? remap[P.out] : nv - 1;
  return Q;
}
static Program replace_uses(const Program &P, int from, int to, int after_instr) {
  Program Q = P;
  for (int i = after_instr + 1; i < (int)Q.ins.size(); ++i) for (int &a : Q.ins[i].a) if (a == from) a = to;
  if (Q.out == from) Q.out = to;
  return Q;
}
void print_candidates(const Program &P) {
  std::set<string> seen; seen.insert(print_program(P));
  auto out = [&](const Program &Q) { string s = print_program(Q); if (seen.insert(s).second) printf("%s\n", s.c_str()); };
  auto vm = P.value_map(); int ni = (int)P.ins.size();
  // observed shapes / devices / ranges (eager run on Naive)
  DevCtx dc = g_devs->ctx("NN"); Device::set_default(*dc.dev[0]);
  ParamSet ps; Exec<Tensor> ex(dc, ps); string k, m; run_until_error(ex, P, k, m);
  // A. truncations
  { int nv = 0; for (int i = 0; i + 1 < ni; ++i) { nv += P.ins[i].nout(); if (nv == 0 || op_is_leaf(P.ins[i].code)) continue;
      Program Q = P; Q.ins.resize(i + 1); Q.out = nv - 1; out(dce(Q)); } }
  // A'. plain dead-code elimination
  out(dce(P));
  // B. bypass
  { int first = 0; for (int i = 0; i < ni; ++i) { const Instr &I = P.ins[i]; int no = I.nout();
      if (no == 1 && first < (int)ex.v.size()) for (int a : I.a) if (a >= 0 && a < (int)ex.v.size() && ex.v[a].shape() == ex.v[first].shape() && &ex.v[a].device() == &ex.v[first].device()) {
        out(dce(replace_uses(P, first, a, i))); break; }
      first += no; } }
  // C. cut: value -> fresh input leaf
  { int first = 0; for (int i = 0; i < ni; ++i) { const Instr &I = P.ins[i]; int no = I.nout();
      if (no == 1 && !op_is_leaf(I.code) && first < (int)ex.v.size()) {
        FV h = ex.v[first].to_vector(); float lo = *std::min_element(h.begin(), h.end()), hi = *std::max_element(h.begin(), h.end());
        if (std::isfinite(lo) && std::isfinite(hi)) {
          if (hi - lo < 0.1f) { lo -= 0.05f; hi += 0.05f; }
          Program Q = P; Instr L(OP_IN); L.s = Shp(ex.v[first].shape()); L.has_s = true; L.n = {(long long)(first + 17), &ex.v[first].device() == dc.dev[1] ? 1 : 0, 0, 0}; L.f = {lo, hi};
          Q.ins[i] = L; out(dce(Q)); } }
      first += no; } }
  // D. parameter -> input (keep at least one parameter)
  { int np = 0; for (auto &I : P.ins) np += I.code == OP_PAR;
    if (np > 1) for (int i = 0; i < ni; ++i) if (P.ins[i].code == OP_PAR) { Program Q = P; Q.ins[i].code = OP_IN; out(dce(Q)); } }
  // E. drop the initial gradient
  if (P.g0) { Program Q = P; Q.g0 = 0; out(Q); }
}
