// Shared helpers for the C++ correspondence drivers.
#ifndef PVH_H_
#define PVH_H_
#include <cstdint>
#include <iostream>
#include <sstream>
#include <string>
#include <vector>
#include <stdexcept>
namespace pvh {
inline std::vector<std::string> split(const std::string &s, char c) {
  std::vector<std::string> out;
  if (s.empty() || s == "-") return out;
  std::string cur;
  for (char ch : s) { if (ch == c) { out.push_back(cur); cur.clear(); } else cur += ch; }
  out.push_back(cur);
  return out;
}
inline std::vector<std::string> tokens(const std::string &line) {
  std::vector<std::string> out; std::istringstream is(line); std::string t;
  while (is >> t) out.push_back(t);
  return out;
}
inline std::uint32_t u32(const std::string &s) { return static_cast<std::uint32_t>(std::stoull(s)); }
inline std::vector<std::uint32_t> u32list(const std::string &s) {
  std::vector<std::uint32_t> out; for (auto &t : split(s, ',')) out.push_back(u32(t)); return out;
}
}  // namespace pvh
#endif
