// Runs the real primitiv::MemoryPool / numeric_utils::calculate_shifts on the case file read
// from stdin.  Same cases and output format as ocaml/pool_driver.ml.
//
// The allocator/deleter functors given to the pools log every call and never touch real
// memory: "pointers" are ordinals 1,2,3,... shifted left by 4 (MemoryPool, shared_ptr<void> and
// the Deleter never dereference a block).  Per allocator call the case says F(ail: throw),
// N(ew address) or R(euse the largest address deleted before that is not outstanding, else a
// new one; independent of the order in which a destructor deletes its blocks).  Output never contains a raw address.
#include <primitiv/core/error.h>
#include <primitiv/core/memory_pool.h>
#include <primitiv/core/numeric_utils.h>
#include <algorithm>
#include <map>
#include <memory>
#include <set>
#include "pvh.h"
using namespace primitiv;
using namespace pvh;

struct AllocFail {};

struct Env {                       // the "device memory" behind all pools of one history
  std::set<std::uint64_t> live;    // outstanding ordinals
  std::vector<std::uint64_t> deleted;   // deletion order
  std::uint64_t maxp = 0;
  std::vector<std::string> events; // calls since the last flush
  std::string sched;               // answers for the calls of the current operation
  unsigned calls = 0;
};
static Env *E;

struct PoolRec {
  std::uint64_t id = ~0ull;
  std::unique_ptr<MemoryPool> pool;
};

static void *fake(std::uint64_t ord) { return reinterpret_cast<void *>(static_cast<std::uintptr_t>(ord << 4)); }
static std::uint64_t ord(const void *p) { return static_cast<std::uint64_t>(reinterpret_cast<std::uintptr_t>(p)) >> 4; }

static void *do_alloc(PoolRec *rec, std::size_t size) {
  char c = E->calls < E->sched.size() ? E->sched[E->calls] : 'N';
  if (E->calls >= 2) E->events.push_back("EXTRA-ALLOCATOR-CALL");
  ++E->calls;
  std::string pre = "A" + std::to_string(rec->id) + ":" + std::to_string(size) + ":";
  if (c == 'F') { E->events.push_back(pre + "F"); throw AllocFail(); }
  std::uint64_t p = 0;
  if (c == 'R') {
    for (auto q : E->deleted) {
      if (q != 0 && !E->live.count(q) && q > p) p = q;
    }
  }
  if (p == 0) p = E->maxp + 1;
  E->maxp = std::max(E->maxp, p);
  E->live.insert(p);
  E->events.push_back(pre + std::to_string(p));
  return fake(p);
}

static void do_delete(PoolRec *rec, void *ptr) {
  std::uint64_t p = ord(ptr);
  std::string s = "D" + std::to_string(rec->id) + ":" + std::to_string(p);
  if (!E->live.count(p)) s += "!NOT-OUTSTANDING";
  E->live.erase(p);
  E->deleted.push_back(p);
  E->events.push_back(s);
}

static std::string flush(bool sorted = false) {
  std::vector<std::string> ev;
  ev.swap(E->events);
  if (sorted) std::sort(ev.begin(), ev.end());
  std::string o = "[";
  for (size_t i = 0; i < ev.size(); ++i) { if (i) o += ','; o += ev[i]; }
  return o + "]";
}

static std::string history(const std::string &text) {
  Env env; E = &env;
  std::vector<std::unique_ptr<PoolRec>> pools;
  std::vector<std::shared_ptr<void>> handles;   // by alloc#
  std::vector<int> hstate;                      // 0 = no handle, 1 = held, 2 = dropped
  std::string out;
  auto add = [&](const std::string &s) { if (!out.empty()) out += ';'; out += s; };
  auto drop = [&](size_t k) -> std::string {
    if (k >= handles.size() || hstate[k] != 1) {
      if (k < handles.size()) handles[k].reset();   // dropping a null / empty handle is legal too
      return "skip";
    }
    hstate[k] = 2;
    try { handles[k].reset(); }
    catch (Error &) { return "drop-threw-error"; }
    catch (...) { return "drop-threw"; }
    return "d" + flush();
  };
  auto destroy = [&](size_t k) -> std::string {
    if (k >= pools.size() || !pools[k]->pool) return "skip";
    try { pools[k]->pool.reset(); }
    catch (...) { return "destroy-threw"; }
    return "x" + flush(true);
  };
  for (auto &opstr : split(text, ';')) {
    auto t = tokens(opstr);
    if (t.empty()) continue;
    if (t[0] == "c" && t.size() == 2) {
      std::unique_ptr<PoolRec> rec(new PoolRec);
      PoolRec *r = rec.get();
      rec->pool.reset(new MemoryPool(
          [r](std::size_t n) { return do_alloc(r, n); },
          [r](void *p) { do_delete(r, p); },
          static_cast<std::size_t>(std::stoull(t[1]))));
      rec->id = rec->pool->id();
      add("c" + std::to_string(rec->id));
      pools.push_back(std::move(rec));
    } else if (t[0] == "a" && t.size() >= 4) {
      size_t k = std::stoull(t[1]);
      bool noasz = t.size() == 5 && t[4] == "n";
      handles.emplace_back(); hstate.push_back(0);
      if (k >= pools.size() || !pools[k]->pool) { add("skip"); continue; }
      std::size_t size = static_cast<std::size_t>(std::stoull(t[2]));
      std::size_t asz = 0xdeadbeef;
      env.sched = t[3]; env.calls = 0;
      std::string res;
      auto a = [&]() { return noasz ? std::string("na") : std::to_string(asz); };
      try {
        std::shared_ptr<void> h = noasz ? pools[k]->pool->allocate(size) : pools[k]->pool->allocate(size, &asz);
        if (!h) res = "null:" + a();
        else { res = "ok:" + std::to_string(ord(h.get())) + ":" + a(); handles.back() = std::move(h); hstate.back() = 1; }
      } catch (Error &) { res = "err:" + a(); }
      catch (AllocFail &) { res = "fail:" + a(); }
      catch (...) { res = "other-exception:" + a(); }
      add(res + flush());
    } else if (t[0] == "d" && t.size() == 2) {
      add(drop(std::stoull(t[1])));
    } else if (t[0] == "x" && t.size() == 2) {
      add(destroy(std::stoull(t[1])));
    } else add("badop");
  }
  std::string endpart;
  auto part = [&](const std::string &s) { if (!endpart.empty()) endpart += '|'; endpart += s; };
  for (size_t k = 0; k < pools.size(); ++k) { std::string s = destroy(k); if (s != "skip") part(s); }
  for (size_t k = 0; k < handles.size(); ++k) { std::string s = drop(k); if (s != "skip" && s != "d[]") part(s); }
  add("end" + endpart);
  if (!env.live.empty()) add("LEAK");
  E = nullptr;
  return out;
}

int main() {
  std::string line;
  while (std::getline(std::cin, line)) {
    size_t b = line.find_first_not_of(" \t");
    if (b == std::string::npos) { std::cout << "\n"; continue; }
    line = line.substr(b);
    std::string r;
    try {
      if (line[0] == 'S') {
        r = "s " + std::to_string(numeric_utils::calculate_shifts(std::stoull(line.substr(1))));
      } else if (line[0] == 'H') {
        std::string rest = line.substr(1);
        size_t s0 = rest.find_first_not_of(' ');
        size_t s1 = rest.find(' ', s0);
        r = history(rest.substr(s1 + 1));   // <base> is implied by the process-wide id counter
      } else r = "badcase";
    } catch (Error &) { r = "err"; }
    catch (std::exception &e) { r = std::string("other-exception"); }
    std::cout << r << "\n";
  }
  return 0;
}
