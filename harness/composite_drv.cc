// composite_drv -- the composite functions of primitiv::functions on the REAL code (Naive and
// Eigen, Tensor API and Node API) against the DOCUMENTED formula, evaluated per coordinate in
// double precision by this driver itself (never by calling another library function).
//
//   composite_drv <seed> <shapes-per-depth>     systematic sweep, one result line per case + SUMMARY
//   composite_drv --case "<case line>"          re-run exactly one case (replay)
//   composite_drv --probe                       fixed constant / nearly constant minibatches through batch::normalize,
//                                               judged like sweep cases (PROBE information lines + CAND/FAIL verdict lines)
//
// case line:  <function> dev=<naive|eigen> shape=<d0,d1,..|->x<B> dim=<d> seed=<s>
// result:     `ok` or `FAIL <case line> :: <class> <details>`
//
// Coordinates: dims padded with 1 up to `dim`; base = prod dims[<dim], n = dims[dim], U = prod
// dims[>dim]; element [low, k, hi] of sample b is  low + base * (k + n * (hi + U * b)).
// Tolerance: |got - exact| <= K * 2^-23 * scale + extra,  scale = max(1, |exact|, max |x_j| over the
// inputs the coordinate depends on, max |summand| of the documented sum);  K = 4;  u = 2^-24.
// extra = first-order rounding-error bound of the parts whose error grows with the number of terms:
//   n-term float32 sum (any order):  (n-1) u sum_j |term_j|     (sum, mean [/n], batch::mean [/B], container sum/mean)
//   logsumexp as coded (n-1 steps  t <- fl32(big + log(1 + expf(fl32(small - big)))),  each step adds at most
//     u|t| (final rounding) + 0.28u (rounded difference) + u (expf, 1 ulp) and passes the incoming error on with a
//     factor sigma <= 1):  |dL| <= (n-1) u (max|x_j| + ln n + 1.5)
//   softmax_cross_entropy(x, t) = -sum_k fl(t_k fl(x_k - L^)):  sum_k |t_k| (|dL| + u|x_k - L|) + u sum|s_k| + (n-1) u sum|s_k|
//     = |dL| sum_k |t_k| + (n+1) u sum_k |s_k|,   s_k = t_k (x_k - L).
// batch::normalize: its documented variance v = B/(B-1) (mean(x^2) - m^2) is a difference of
// float32 quantities of size max x^2, each step rounded: |dv| <= (3B+4)/2 * 2^-23 * B/(B-1) * max x^2
// (x^2: u; B-term sum: (B-1)u; /B: u; m: B u relative to max|x| so m^2: (2B+1)u; the difference and the scaling: 2u).
// The numerator fl(x - m^) carries  en = (B+1) u max|x| + u |x - m|  ((B-1)u for the sum, 2u for the division by B).
// Well-conditioned elements (v + eps > 4 dv) get the first-order propagated terms |r| dv / (v + eps) +
// en / sqrt(v + eps) added to the tolerance and are judged strictly.  Ill-conditioned elements (the samples
// of the element nearly equal: v + eps <= 4 dv) that miss the tolerance are the cancellation defect of the
// E[x^2] - m^2 formulation ONLY IF the value is one that a computed variance v^ in [v - dv, v + dv] produces:
//   NaN                      only when v - dv + eps <= 0 (the computed radicand can be negative);
//   otherwise the sign of x - m (unless |x - m| <= en) and
//   (|x - m| - en)+ / sqrt(v + dv + eps) <= |got| <= (|x - m| + en) / sqrt(v - dv + eps)   (no upper end when v - dv + eps <= 0).
// Those are printed as `CAND <case line> :: ...` (candidate finding D31, reported by engines/composites.py through
// ctx.violation); an ill-conditioned value outside that interval is an ordinary FAIL.  All coordinates of a case are
// examined: a FAIL anywhere in the case wins over the CANDs of the same case.
// Inputs are uniform in [-8, 8] (large logits: known finding D23, not exercised here).
#include <primitiv/primitiv.h>
#include <algorithm>
#include <cmath>
#include <cstdint>
#include <cstring>
#include <iostream>
#include <map>
#include <memory>
#include <sstream>
#include <string>
#include <vector>
#include "pvh.h"

using namespace primitiv;
namespace F = primitiv::functions;
using std::string; using std::vector; using std::uint32_t; using std::uint64_t;

static const double ULP32 = 1.1920928955078125e-07;  // 2^-23
static const double K = 4.0;

struct Rng {  // splitmix64
  uint64_t s;
  explicit Rng(uint64_t seed) : s(seed + 0x632BE59BD9B4E019ull) { s ^= s >> 33; s *= 0xff51afd7ed558ccdull; s ^= s >> 33; s *= 0xc4ceb9fe1a85ec53ull; s ^= s >> 33; }
  uint64_t next() { uint64_t z = (s += 0x9E3779B97F4A7C15ull); z = (z ^ (z >> 30)) * 0xBF58476D1CE4E5B9ull; z = (z ^ (z >> 27)) * 0x94D049BB133111EBull; return z ^ (z >> 31); }
  double uni() { return (next() >> 11) * (1.0 / 9007199254740992.0); }
  uint32_t below(uint32_t n) { return static_cast<uint32_t>(next() % n); }
};

struct Case { string fn, dev; vector<uint32_t> dims; uint32_t B, dim; uint64_t seed; };

static string case_line(const Case &c) {
  std::ostringstream o; o << c.fn << " dev=" << c.dev << " shape=";
  if (c.dims.empty()) o << "-";
  for (size_t i = 0; i < c.dims.size(); ++i) o << (i ? "," : "") << c.dims[i];
  o << "x" << c.B << " dim=" << c.dim << " seed=" << c.seed;
  return o.str();
}
static Case parse_case(const string &line) {
  Case c; auto t = pvh::tokens(line); c.fn = t.at(0);
  for (size_t i = 1; i < t.size(); ++i) {
    const string &s = t[i]; size_t e = s.find('='); string k = s.substr(0, e), v = s.substr(e + 1);
    if (k == "dev") c.dev = v;
    else if (k == "shape") { size_t x = v.rfind('x'); c.dims = pvh::u32list(v.substr(0, x)); c.B = pvh::u32(v.substr(x + 1)); }
    else if (k == "dim") c.dim = pvh::u32(v);
    else if (k == "seed") c.seed = std::stoull(v);
  }
  return c;
}

struct Geo { uint32_t base, n, U, V, B; };
static Geo geo(const Case &c) {
  Geo g; g.base = 1; g.n = 1; g.U = 1; g.B = c.B;
  for (uint32_t a = 0; a < c.dims.size(); ++a) { if (a < c.dim) g.base *= c.dims[a]; else if (a == c.dim) g.n = c.dims[a]; else g.U *= c.dims[a]; }
  g.V = g.base * g.n * g.U; return g;
}
static inline size_t at(const Geo &g, uint32_t low, uint32_t k, uint32_t hi, uint32_t b) { return low + (size_t)g.base * (k + (size_t)g.n * (hi + (size_t)g.U * b)); }

static vector<float> rand_data(Rng &r, size_t n, double lo, double hi) { vector<float> v(n); for (auto &x : v) x = static_cast<float>(lo + (hi - lo) * r.uni()); return v; }

struct Devs { devices::Naive naive; devices::Eigen eigen; Devs() : naive(12345), eigen(12345) {} Device &get(const string &d) { if (d == "eigen") return eigen; return naive; } };

struct Result { bool ok; string cls, details; double ratio; size_t coords; bool cand; };
static Result fail(const string &cls, const string &d) { return Result{false, cls, d, 0, 0, false}; }

// expected value + scale per output coordinate; compare
struct Expect { vector<double> val, scale, extra; vector<char> illcond; vector<double> num, en, vlo, vhi; vector<uint32_t> out_dims; uint32_t out_B; };
// ill-conditioned batch::normalize coordinate i: is `g` a value that a computed variance within dv of v produces?
static bool cancellation_explains(const Expect &e, size_t i, double g, string *why) {
  double num = e.num[i], a = std::fabs(num), en = e.en[i], lo = e.vlo[i], hi = e.vhi[i], rel = 1 + K * ULP32;
  double upper = lo > 0 ? (a + en) / std::sqrt(lo) * rel : INFINITY, lower = std::max(0.0, a - en) / std::sqrt(hi) / rel;
  std::ostringstream o; o.precision(9);
  o << " cancellation: x-m=" << num << " en=" << en << " v+eps in [" << lo << "," << hi << "] so |y| in [" << lower << "," << upper << "]" << (lo <= 0 ? " or NaN" : "");
  *why = o.str();
  if (std::isnan(g)) return lo <= 0;
  if (a > en && g != 0 && (g > 0) != (num > 0)) return false;   // wrong sign
  return std::fabs(g) <= upper && std::fabs(g) >= lower;
}
static Result compare(const Expect &e, const Shape &s, const vector<float> &got) {
  Shape want(e.out_dims, e.out_B);
  if (!(s == want)) return fail("shape", "got " + s.to_string() + " expected " + want.to_string());
  if (got.size() != e.val.size()) return fail("size", "got " + std::to_string(got.size()) + " values, expected " + std::to_string(e.val.size()));
  double worst = 0; Result ff, fc; size_t nfail = 0, ncand = 0;   // every coordinate is examined
  for (size_t i = 0; i < got.size(); ++i) {
    double tol = K * ULP32 * e.scale[i] + (e.extra.empty() ? 0.0 : e.extra[i]);
    double err = std::fabs((double)got[i] - e.val[i]);
    if (!(err <= tol)) {  // also catches NaN
      std::ostringstream o; o.precision(9);
      o << "element " << i << " got " << got[i] << " exact " << e.val[i] << " err " << err << " tol " << tol;
      Result f = fail(std::isfinite(got[i]) ? "value" : "not-finite", o.str()); string why;
      if (!e.illcond.empty() && e.illcond[i]) { f.cand = cancellation_explains(e, i, got[i], &why); f.details += why + (f.cand ? "" : " NOT-EXPLAINED-BY-CANCELLATION"); }
      if (f.cand) { if (!ncand++) fc = f; } else { if (!nfail++) ff = f; }
      continue;
    }
    worst = std::max(worst, err / tol);
  }
  if (nfail) { ff.details += " [" + std::to_string(nfail) + " failing, " + std::to_string(ncand) + " candidate coordinate(s) in this case]"; return ff; }
  if (ncand) { fc.details += " [" + std::to_string(ncand) + " candidate coordinate(s) in this case]"; return fc; }
  return Result{true, "", "", worst, got.size(), false};
}
static bool same_bits(const vector<float> &a, const vector<float> &b) { return a.size() == b.size() && (a.empty() || std::memcmp(a.data(), b.data(), a.size() * sizeof(float)) == 0); }

static vector<uint32_t> reduced_dims(const Case &c) { vector<uint32_t> d = c.dims; if (c.dim < d.size()) d[c.dim] = 1; return d; }

// ---- the documented functions, per coordinate ----
static double lse_exact(const vector<float> &x, const Geo &g, uint32_t low, uint32_t hi, uint32_t b, double *mx) {
  double m = -INFINITY, am = 0; for (uint32_t j = 0; j < g.n; ++j) { double v = x[at(g, low, j, hi, b)]; m = std::max(m, v); am = std::max(am, std::fabs(v)); }
  double s = 0; for (uint32_t j = 0; j < g.n; ++j) s += std::exp((double)x[at(g, low, j, hi, b)] - m);
  *mx = am; return m + std::log(s);
}

// dropout_r<percent>_<on|off>: rate = percent / 100 (0, 25, 50, 100 are exact floats), enabled = on
static void parse_dropout(const string &f, float *rate, bool *on) {
  size_t u = f.rfind('_'); *rate = std::stoi(f.substr(9, u - 9)) / 100.0f; *on = (f.substr(u + 1) == "on");
}

template <typename Var> struct Api;
template <> struct Api<Tensor> { static vector<float> vec(const Tensor &t) { return t.to_vector(); } static Shape shp(const Tensor &t) { return t.shape(); } };
template <> struct Api<Node> { static vector<float> vec(const Node &t) { return t.to_vector(); } static Shape shp(const Node &t) { return t.shape(); } };

// the non-template spellings zeros_tensor / zeros_node / ones_tensor / ones_node (pointer arguments)
template <typename Var> struct ZerosOnes;
template <> struct ZerosOnes<Tensor> { static Tensor zeros(const Shape &s, Device &d) { return F::zeros_tensor(s, &d); } static Tensor ones(const Shape &s, Device &d) { return F::ones_tensor(s, &d); } };
template <> struct ZerosOnes<Node> { static Node zeros(const Shape &s, Device &d) { return F::zeros_node(s, &d, nullptr); } static Node ones(const Shape &s, Device &d) { return F::ones_node(s, &d, nullptr); } };

struct Inputs { vector<float> x, t, y2, y3; vector<uint32_t> ids; uint32_t tB; };

// runs the composite `fn` through API Var; returns (shape, values)
template <typename Var>
static std::pair<Shape, vector<float>> run_fn(const Case &c, const Inputs &in, Device &dev) {
  Shape sx(c.dims, c.B);
  Var x = F::input<Var>(sx, in.x, dev);
  Var y;
  const string &f = c.fn;
  if (f == "logsumexp") y = F::logsumexp(x, c.dim);
  else if (f == "log_softmax") y = F::log_softmax(x, c.dim);
  else if (f == "softmax") y = F::softmax(x, c.dim);
  else if (f == "sum") y = F::sum(x, c.dim);
  else if (f == "mean") y = F::mean(x, c.dim);
  else if (f == "sce_dense" || f == "sce_dense_tb1") { Var t = F::input<Var>(Shape(c.dims, in.tB), in.t, dev); y = F::softmax_cross_entropy(x, t, c.dim); }
  else if (f == "sce_sparse" || f == "sce_sparse_1") y = F::softmax_cross_entropy(x, in.ids, c.dim);
  else if (f == "batch_mean") y = F::batch::mean(x);
  else if (f == "batch_normalize") y = F::batch::normalize(x);
  else if (f == "selu") y = F::selu(x);
  else if (f == "selu_custom") y = F::selu(x, 0.75f, 1.5f);
  else if (f.compare(0, 9, "dropout_r") == 0) { float rate; bool on; parse_dropout(f, &rate, &on); y = F::dropout(x, rate, on); }
  else if (f == "container_sum" || f == "container_mean") {
    vector<Var> xs; xs.push_back(x); xs.push_back(F::input<Var>(sx, in.y2, dev)); xs.push_back(F::input<Var>(sx, in.y3, dev));
    if (c.seed & 1) {   // the container-of-pointers overloads (same documented value)
      vector<const Var *> ps; for (const Var &v : xs) ps.push_back(&v);
      y = (f == "container_sum") ? F::sum(ps) : F::mean(ps);
    } else y = (f == "container_sum") ? F::sum(xs) : F::mean(xs);
  }
  else if (f == "zeros") y = (c.seed & 1) ? ZerosOnes<Var>::zeros(sx, dev) : F::zeros<Var>(sx, dev);
  else if (f == "ones") y = (c.seed & 1) ? ZerosOnes<Var>::ones(sx, dev) : F::ones<Var>(sx, dev);
  else throw std::runtime_error("unknown function " + f);
  return std::make_pair(Api<Var>::shp(y), Api<Var>::vec(y));
}

static Inputs make_inputs(const Case &c) {
  Rng r(c.seed); Geo g = geo(c); Inputs in; size_t N = (size_t)g.V * c.B;
  in.x = rand_data(r, N, -8, 8);
  if (c.fn.compare(0, 9, "dropout_r") == 0 && c.fn.substr(c.fn.size() - 4) == "_off") {
    // disabled dropout must hand back x bit for bit whatever it holds: -0.0, +inf, -inf among the values
    const float sp[3] = {-0.0f, INFINITY, -INFINITY}; uint32_t o = r.below(3);
    for (size_t i = 0; i < N && i < 3; ++i) in.x[(i * 7) % N] = sp[(i + o) % 3];
  }
  in.tB = (c.fn == "sce_dense_tb1") ? 1 : c.B;
  in.t = rand_data(r, (size_t)g.V * in.tB, 0, 1);
  in.y2 = rand_data(r, N, -8, 8); in.y3 = rand_data(r, N, -8, 8);
  uint32_t ni = (c.fn == "sce_sparse_1") ? 1 : c.B;
  for (uint32_t i = 0; i < ni; ++i) in.ids.push_back(r.below(g.n));
  return in;
}

static Expect expect(const Case &c, const Inputs &in) {
  Geo g = geo(c); Expect e; const string &f = c.fn; const vector<float> &x = in.x;
  auto full = [&]() { e.out_dims = c.dims; e.out_B = c.B; e.val.assign((size_t)g.V * c.B, 0); e.scale.assign(e.val.size(), 1); e.extra.assign(e.val.size(), 0); };
  auto red = [&](uint32_t B) { e.out_dims = reduced_dims(c); e.out_B = B; e.val.assign((size_t)g.base * g.U * B, 0); e.scale.assign(e.val.size(), 1); e.extra.assign(e.val.size(), 0); };
  Geo go = g; go.n = 1; const double u = ULP32 / 2;
  if (f == "logsumexp" || f == "sum" || f == "mean") {
    red(c.B);
    for (uint32_t b = 0; b < c.B; ++b) for (uint32_t hi = 0; hi < g.U; ++hi) for (uint32_t low = 0; low < g.base; ++low) {
      size_t o = at(go, low, 0, hi, b); double mx = 0, v;
      if (f == "logsumexp") v = lse_exact(x, g, low, hi, b, &mx);
      else { double sa = 0; v = 0; for (uint32_t j = 0; j < g.n; ++j) { double a = x[at(g, low, j, hi, b)]; v += a; sa += std::fabs(a); mx = std::max(mx, std::fabs(a)); } e.extra[o] = (g.n - 1.0) * u * sa; if (f == "mean") { v /= g.n; e.extra[o] /= g.n; } }
      e.val[o] = v; e.scale[o] = std::max(1.0, std::max(std::fabs(v), mx));
    }
  } else if (f == "log_softmax" || f == "softmax") {
    full();
    for (uint32_t b = 0; b < c.B; ++b) for (uint32_t hi = 0; hi < g.U; ++hi) for (uint32_t low = 0; low < g.base; ++low) {
      double mx; double L = lse_exact(x, g, low, hi, b, &mx);
      for (uint32_t k = 0; k < g.n; ++k) { size_t o = at(g, low, k, hi, b); double v = (double)x[o] - L; if (f == "softmax") v = std::exp(v); e.val[o] = v; e.scale[o] = std::max(1.0, std::max(std::fabs(v), mx)); }
    }
  } else if (f == "sce_dense" || f == "sce_dense_tb1") {
    red(c.B);
    for (uint32_t b = 0; b < c.B; ++b) for (uint32_t hi = 0; hi < g.U; ++hi) for (uint32_t low = 0; low < g.base; ++low) {
      double mx; double L = lse_exact(x, g, low, hi, b, &mx); double v = 0, ms = 0, ss = 0, st = 0;
      for (uint32_t k = 0; k < g.n; ++k) { double tv = in.t[at(g, low, k, hi, in.tB == 1 ? 0 : b)]; double s = tv * ((double)x[at(g, low, k, hi, b)] - L); v -= s; ms = std::max(ms, std::fabs(s)); ss += std::fabs(s); st += std::fabs(tv); }
      size_t o = at(go, low, 0, hi, b); e.val[o] = v; e.scale[o] = std::max(std::max(1.0, std::fabs(v)), std::max(mx, ms));
      e.extra[o] = u * ((g.n + 1.0) * ss + (g.n - 1.0) * (mx + std::log((double)g.n) + 1.5) * st);
    }
  } else if (f == "sce_sparse" || f == "sce_sparse_1") {
    red(c.B);
    for (uint32_t b = 0; b < c.B; ++b) for (uint32_t hi = 0; hi < g.U; ++hi) for (uint32_t low = 0; low < g.base; ++low) {
      double mx; double L = lse_exact(x, g, low, hi, b, &mx); uint32_t k = in.ids[in.ids.size() == 1 ? 0 : b];
      double v = -((double)x[at(g, low, k, hi, b)] - L); size_t o = at(go, low, 0, hi, b); e.val[o] = v; e.scale[o] = std::max(1.0, std::max(std::fabs(v), mx));
    }
  } else if (f == "batch_mean") {
    e.out_dims = c.dims; e.out_B = 1; e.val.assign(g.V, 0); e.scale.assign(g.V, 1); e.extra.assign(g.V, 0);
    for (uint32_t i = 0; i < g.V; ++i) { double s = 0, sa = 0, mx = 0; for (uint32_t b = 0; b < c.B; ++b) { double a = x[(size_t)b * g.V + i]; s += a; sa += std::fabs(a); mx = std::max(mx, std::fabs(a)); } e.val[i] = s / c.B; e.extra[i] = (c.B - 1.0) * u * sa / c.B; e.scale[i] = std::max(1.0, std::max(std::fabs(e.val[i]), mx)); }
  } else if (f == "batch_normalize") {
    full(); e.illcond.assign(e.val.size(), 0); e.num.assign(e.val.size(), 0); e.en = e.vlo = e.vhi = e.num;
    const double eps = (double)1e-8f;   // `v + 1e-8` converts the literal to float (operator+(Var, float))
    for (uint32_t i = 0; i < g.V; ++i) {
      if (c.B == 1) { e.val[i] = x[i]; e.scale[i] = 0; continue; }  // documented formula: B/(B-1) undefined; the code returns x unchanged
      double s = 0, q = 0, mx = 0; for (uint32_t b = 0; b < c.B; ++b) { double a = x[(size_t)b * g.V + i]; s += a; q += a * a; mx = std::max(mx, std::fabs(a)); }
      double m = s / c.B, sc = (double)c.B / (c.B - 1.0), var = sc * (q / c.B - m * m);
      double dv = (3.0 * c.B + 4.0) / 2.0 * ULP32 * sc * mx * mx;
      for (uint32_t b = 0; b < c.B; ++b) {
        size_t o = (size_t)b * g.V + i; double num = (double)x[o] - m, r = num / std::sqrt(var + eps), en = (c.B + 1.0) * u * mx + u * std::fabs(num);
        e.val[o] = r; e.scale[o] = std::max(1.0, std::max(std::fabs(r), mx));
        if (var + eps > 4 * dv) e.extra[o] = std::fabs(r) * dv / (var + eps) + en / std::sqrt(var + eps);
        else { e.illcond[o] = 1; e.num[o] = num; e.en[o] = en; e.vlo[o] = var - dv + eps; e.vhi[o] = var + dv + eps; }
      }
    }
  } else if (f == "selu" || f == "selu_custom") {
    full(); double a = (f == "selu") ? (double)1.6732632423543772848170429916717f : 0.75, s = (f == "selu") ? (double)1.0507009873554804934193349852946f : 1.5;
    for (size_t o = 0; o < e.val.size(); ++o) { double v = x[o]; e.val[o] = s * (v >= 0 ? v : a * (std::exp(v) - 1)); e.scale[o] = std::max(1.0, std::fabs(v)); }
  } else if (f == "zeros") {
    full(); for (size_t o = 0; o < e.val.size(); ++o) { e.val[o] = 0; e.scale[o] = 0; }
  } else if (f == "ones") {
    full(); for (size_t o = 0; o < e.val.size(); ++o) { e.val[o] = 1; e.scale[o] = 0; }
  } else if (f == "container_sum" || f == "container_mean") {
    full(); for (size_t o = 0; o < e.val.size(); ++o) { double v = (double)x[o] + in.y2[o] + in.y3[o]; double mx = std::max(std::fabs((double)x[o]), std::max(std::fabs((double)in.y2[o]), std::fabs((double)in.y3[o]))); e.extra[o] = 2 * u * (std::fabs((double)x[o]) + std::fabs((double)in.y2[o]) + std::fabs((double)in.y3[o])); if (f == "container_mean") { v /= 3; e.extra[o] /= 3; } e.val[o] = v; e.scale[o] = std::max(1.0, std::max(std::fabs(v), mx)); }
  } else if (f.compare(0, 9, "dropout_r") == 0) {
    full();   // judged by judge_dropout
  } else throw std::runtime_error("unknown function " + f);
  return e;
}

// dropout(x, rate, enabled) as documented (contrib/functions.h:282-296):
//   disabled              -> x itself, bit for bit, for EVERY rate (rate 1 included) and every content of x
//   enabled, rate 1       -> all zeros (`0 * x`)
//   enabled, rate 0       -> x (the mask Bernoulli(1) is all ones, 1/p = 1)
//   enabled, 0 < rate < 1 -> every element is 0 or x / (1 - rate)
static Result judge_dropout(const Case &c, const Inputs &in, const Shape &s, const vector<float> &got, const string &who) {
  float rate; bool on; parse_dropout(c.fn, &rate, &on);
  if (!(s == Shape(c.dims, c.B))) return fail(who + "shape", "got " + s.to_string());
  if (got.size() != in.x.size()) return fail(who + "size", "got " + std::to_string(got.size()) + " values");
  std::ostringstream o; o.precision(9);
  for (size_t i = 0; i < got.size(); ++i) {
    double x = in.x[i], g = got[i];
    if (!on) {
      if (std::memcmp(&got[i], &in.x[i], 4) != 0) { o << "element " << i << " got " << g << " but disabled dropout(rate " << rate << ") must return x = " << x << " bit for bit"; return fail(who + "disabled-not-identity", o.str()); }
    } else if (rate == 1.0f) {
      if (!(g == 0)) { o << "element " << i << " got " << g << ", rate 1 must give 0"; return fail(who + "value", o.str()); }
    } else if (rate == 0.0f) {
      if (!(g == x)) { o << "element " << i << " got " << g << ", rate 0 must give x = " << x; return fail(who + "value", o.str()); }
    } else {
      double keep = x / (1.0 - (double)rate);
      bool zero = (g == 0), kept = std::fabs(g - keep) <= K * ULP32 * std::max(1.0, std::fabs(keep));
      if (!zero && !kept) { o << "element " << i << " got " << g << " neither 0 nor x/(1-rate) = " << keep; return fail(who + "value", o.str()); }
    }
  }
  return Result{true, "", "", 0, got.size(), false};
}

static Result run_case(const Case &c, Devs &devs) {
  Device &dev = devs.get(c.dev); Device::set_default(dev);
  Inputs in = make_inputs(c);
  std::pair<Shape, vector<float>> rt, rn;
  try { rt = run_fn<Tensor>(c, in, dev); }
  catch (const Error &e) { return fail("tensor-api-exception", e.what()); }
  Expect e = expect(c, in);
  Result r;
  if (c.fn.compare(0, 9, "dropout_r") == 0) {
    // the documented behaviour, for the Tensor argument and again for a Node argument (own mask)
    r = judge_dropout(c, in, rt.first, rt.second, "");
    if (!r.ok) return r;
    try { Graph g; Graph::set_default(g); rn = run_fn<Node>(c, in, dev); }
    catch (const Error &ex) { return fail("node-api-exception", ex.what()); }
    Result r2 = judge_dropout(c, in, rn.first, rn.second, "node-");
    if (!r2.ok) return r2;
    r.coords += r2.coords; return r;
  }
  r = compare(e, rt.first, rt.second);
  if (!r.ok) {
    if (c.fn == "batch_normalize" && r.details.compare(0, 8, "element ") == 0) {
      Geo g = geo(c); size_t idx = std::stoull(r.details.substr(8)); std::ostringstream o; o.precision(9);
      o << " samples x[b;" << (idx % g.V) << "]=("; for (uint32_t b = 0; b < c.B; ++b) o << (b ? "," : "") << in.x[(size_t)b * g.V + idx % g.V]; o << ")";
      r.details += o.str();
    }
    return r;
  }
  try { Graph g; Graph::set_default(g); rn = run_fn<Node>(c, in, dev); }
  catch (const Error &ex) { return fail("node-api-exception", ex.what()); }
  if (!(rn.first == rt.first)) return fail("node-vs-tensor-shape", "node " + rn.first.to_string() + " tensor " + rt.first.to_string());
  if (c.dev == "eigen") {
    // Eigen results are not a function of the inputs at bit level (packet vs scalar code path depends
    // on the alignment of the buffers): the Node values are judged against the documented formula too.
    Result r2 = compare(e, rn.first, rn.second);
    if (!r2.ok) { r2.cls = "node-" + r2.cls; return r2; }
    r.ratio = std::max(r.ratio, r2.ratio); r.coords += r2.coords;
  } else if (!same_bits(rn.second, rt.second)) {
    size_t i = 0; while (i < rn.second.size() && std::memcmp(&rn.second[i], &rt.second[i], 4) == 0) ++i;
    std::ostringstream o; o.precision(9); o << "element " << i << " node " << rn.second[i] << " tensor " << rt.second[i];
    return fail("node-vs-tensor-value", o.str());
  }
  return r;
}

static const char *FNS[] = {"logsumexp", "log_softmax", "softmax", "sum", "mean", "sce_dense", "sce_dense_tb1", "sce_sparse", "sce_sparse_1"};
static const char *FNS_NODIM[] = {"batch_mean", "batch_normalize", "selu", "selu_custom", "dropout_r0_off", "dropout_r25_off", "dropout_r50_off", "dropout_r100_off", "dropout_r0_on", "dropout_r25_on", "dropout_r50_on", "dropout_r100_on", "container_sum", "container_mean", "zeros", "ones"};

// the fixed inputs of the probe are judged exactly like a sweep case (same expectation, same tolerance, same
// candidate rule); a verdict line `CAND|FAIL batch_normalize dev=<d> shape=-x<B> dim=0 seed=probe<k> :: ...` follows
// the PROBE line when the value misses the tolerance (replay: composite_drv --probe)
static void probe_verdict(const char *dn, const vector<float> &data, const Tensor &yt, int k) {
  Case c{"batch_normalize", dn, vector<uint32_t>(), (uint32_t)data.size(), 0, 0}; Inputs in; in.x = data; in.tB = c.B;
  Result r = compare(expect(c, in), yt.shape(), yt.to_vector());
  if (r.ok) return;
  std::ostringstream o; o.precision(9); o << " samples x=("; for (size_t b = 0; b < data.size(); ++b) o << (b ? "," : "") << data[b]; o << ")";
  std::cout << (r.cand ? "CAND " : "FAIL ") << "batch_normalize dev=" << dn << " shape=-x" << c.B << " dim=0 seed=probe" << k << " :: " << r.cls << " " << r.details << o.str() << "\n";
}
static int probe(Devs &devs) {
  // batch::normalize on a constant minibatch: exact value 0 everywhere (x - m = 0, v = 0, eps > 0)
  const float cs[] = {0.1f, 3.3f, 7.7f, 100.1f, 1000.1f}; int k = 0;
  for (const char *dn : {"naive", "eigen"}) for (uint32_t B : {2u, 3u, 5u, 7u}) for (float cv : cs) {
    Device &dev = devs.get(dn); Device::set_default(dev);
    vector<float> data(B, cv); Tensor x = F::input<Tensor>(Shape(vector<uint32_t>(), B), data, dev);
    Tensor yt = F::batch::normalize(x); vector<float> y = yt.to_vector();
    bool bad = false; double worst = 0; for (float v : y) { if (!std::isfinite(v)) bad = true; worst = std::max(worst, std::fabs((double)v)); }
    std::cout.precision(9);
    std::cout << "PROBE batch_normalize dev=" << dn << " shape=-x" << B << " const=" << cv << " -> " << (bad ? "NOT-FINITE" : "finite") << " max|y|=" << worst << " y0=" << y[0] << " (exact 0)\n";
    probe_verdict(dn, data, yt, k++);
  }
  // two nearly equal samples: exact value -+ (x0 - x1) / |x0 - x1| / sqrt(2) up to eps
  const float pairs[][2] = {{-5.04516506f, -5.04212427f}, {-7.91470528f, -7.91219139f}, {-3.67219067f, -3.67176938f}, {100.0f, 100.001f}};
  for (const char *dn : {"naive", "eigen"}) for (auto &pr : pairs) {
    Device &dev = devs.get(dn); Device::set_default(dev);
    vector<float> data(pr, pr + 2); Tensor x = F::input<Tensor>(Shape(vector<uint32_t>(), 2), data, dev);
    Tensor yt = F::batch::normalize(x); vector<float> y = yt.to_vector();
    double m = ((double)pr[0] + pr[1]) / 2, var = 2.0 * (((double)pr[0] * pr[0] + (double)pr[1] * pr[1]) / 2 - m * m), ex = (pr[0] - m) / std::sqrt(var + (double)1e-8f);
    std::cout.precision(9);
    std::cout << "PROBE batch_normalize dev=" << dn << " shape=-x2 x=(" << pr[0] << "," << pr[1] << ") -> y0=" << y[0] << " exact " << ex << "\n";
    probe_verdict(dn, data, yt, k++);
  }
  return 0;
}

int main(int argc, char **argv) {
  Devs devs;
  if (argc >= 2 && string(argv[1]) == "--probe") return probe(devs);
  if (argc >= 3 && string(argv[1]) == "--case") {
    Case c = parse_case(argv[2]); Result r;
    try { r = run_case(c, devs); } catch (const std::exception &e) { r = fail("exception", e.what()); }
    if (r.ok) std::cout << "ok\n"; else std::cout << (r.cand ? "CAND " : "FAIL ") << case_line(c) << " :: " << r.cls << " " << r.details << "\n";
    return 0;
  }
  uint64_t seed = argc > 1 ? std::stoull(argv[1]) : 1; uint32_t per = argc > 2 ? pvh::u32(argv[2]) : 2;
  Rng r(seed); std::map<string, long> per_fn, per_dev; long ok = 0, bad = 0, cand = 0, coords = 0; double worst = 0; string worst_case;
  std::map<string, double> worst_fn; std::map<string, long> boundary;
  auto one = [&](const Case &c) {
    Result res;
    try { res = run_case(c, devs); } catch (const std::exception &e) { res = fail("exception", e.what()); }
    per_fn[c.fn]++; per_dev[c.dev]++;
    { Geo g = geo(c);
      if ((c.fn == "mean" || c.fn == "sum") && g.n == 1) boundary[c.fn + "_extent1"]++;
      if ((c.fn == "softmax" || c.fn == "log_softmax" || c.fn == "logsumexp" || c.fn == "sce_dense" || c.fn == "sce_sparse") && c.dim >= c.dims.size()) boundary[c.fn + "_axis_at_or_beyond_depth"]++;
      if ((c.fn == "batch_mean" || c.fn == "batch_normalize") && c.B == 1) boundary[c.fn + "_B1"]++;
      if (c.fn == "dropout_r100_off") boundary["dropout_disabled_rate1"]++;
      if (c.dims.empty()) boundary["scalar_shape"]++; }
    if (res.ok) { ++ok; coords += res.coords; std::cout << "ok\n"; if (res.ratio > worst) { worst = res.ratio; worst_case = case_line(c); } worst_fn[c.fn] = std::max(worst_fn[c.fn], res.ratio); }
    else if (res.cand) { ++cand; std::cout << "CAND " << case_line(c) << " :: " << res.cls << " " << res.details << "\n"; }
    else { ++bad; std::cout << "FAIL " << case_line(c) << " :: " << res.cls << " " << res.details << "\n"; }
  };
  for (const char *dn : {"naive", "eigen"}) for (uint32_t depth = 0; depth <= 4; ++depth) for (uint32_t rep = 0; rep < per; ++rep) {
    vector<uint32_t> dims; for (uint32_t a = 0; a < depth; ++a) dims.push_back(1 + r.below(4));
    while (!dims.empty() && dims.back() == 1) dims.back() = 2 + r.below(3);   // canonical: no trailing 1 (inner 1s stay)
    for (uint32_t B = 1; B <= 3; ++B) {
      for (uint32_t dim = 0; dim <= 5; ++dim) for (const char *fn : FNS) { Case c{fn, dn, dims, B, dim, r.next() >> 16}; one(c); }
      for (const char *fn : FNS_NODIM) { Case c{fn, dn, dims, B, 0, r.next() >> 16}; one(c); }
    }
  }
  std::cout.precision(6);
  std::cout << "SUMMARY {\"seed\": " << seed << ", \"shapes_per_depth\": " << per << ", \"cases\": " << (ok + bad + cand) << ", \"ok\": " << ok << ", \"fail\": " << bad << ", \"candidates\": " << cand
            << ", \"coords_checked\": " << coords << ", \"K\": " << K << ", \"max_err_over_tol\": " << worst << ", \"worst_case\": \"" << worst_case << "\", \"per_function\": {";
  bool first = true; for (auto &kv : per_fn) { std::cout << (first ? "" : ", ") << "\"" << kv.first << "\": [" << kv.second << ", " << worst_fn[kv.first] << "]"; first = false; }
  std::cout << "}, \"boundary\": {"; first = true; for (auto &kv : boundary) { std::cout << (first ? "" : ", ") << "\"" << kv.first << "\": " << kv.second; first = false; }
  std::cout << "}, \"per_device\": {"; first = true; for (auto &kv : per_dev) { std::cout << (first ? "" : ", ") << "\"" << kv.first << "\": " << kv.second; first = false; }
  std::cout << "}}\n";
  return 0;
}
