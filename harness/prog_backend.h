// prog_backend.h -- `backend` (C08) oracle and the `conv` self-check.  Included by prog_drv.cc.
//
// (a) per-instruction, re-synchronised: the program runs eagerly on Naive; every instruction is then
//     executed on Eigen FROM NAIVE'S ARGUMENT VALUES and compared: same accept/reject, same shape,
//     creation / data movement / max / min / max_pool2d / abs / negation bit-for-bit, everything else
//     |e - n| <= K * 2^-24 * max(1, max|n|, L * max|a| * max(1, max|b|)) with L the length of the
//     reduction (1 for elementwise functions) -- any-order summation of L terms has error
//     <= L * 2^-24 * sum|terms|, elementary functions differ by a few ulp; K = 16 (K = 64 for the
//     pow family = exp(b log a)).
// (b) whole programs through the Node API on NN, EE and split NE / EN (functions::copy between the
//     devices): same accept/reject at the same instruction, same static shapes, forward values,
//     parameter gradients of backward(y*w), parameters after 2 steps of SGD(0.01) and of Adam(0.01)
//     (a tensor that is not finite or above 1e6 on the reference run -- the steps left the domain -- is skipped
//     and COUNTED: extra.skipped_*; progcheck.py bounds the skipped share).
//     Rounding differences of (a) propagate through <= 14 well-conditioned operations (the generator
//     bounds magnitudes and keeps away from singularities): tolerance 1e-4 * max(1, max|tensor|) (largest deviation observed on 15000 programs: 6.2e-6);
//     programs made only of bit-exact functions: forward values bit-for-bit.
//     Adam divides by sqrt(v): elements whose gradient is below 1e-3 * max(1, max|g|) on the reference
//     run are excluded from the Adam comparison (sign of a rounding-level gradient), and counted.
static const double TOL_WHOLE = 1e-4;

static double red_len(const Instr &I, const vector<Shape> &as) {
  if (as.empty()) return 1;
  const Shape &x = as[0];
  switch (I.code) {
    case OP_SUM: case OP_MEAN: case OP_LSE: case OP_LSM: case OP_SOFTMAX: case OP_SCE: case OP_SCERAW: case OP_SSCE:
      return I.n.empty() ? 1 : x[(uint32_t)I.n[0]];
    case OP_MATMUL: return x[1];
    case OP_CONV: return as.size() > 1 ? (double)as[1][0] * as[1][1] * as[1][2] : 1;
    case OP_BSUM: case OP_BMEAN: case OP_BNORM: return x.batch();
    case OP_SUMN: case OP_MEANN: return (double)as.size();
    default: return 1;
  }
}
static bool exact_program(const Program &P) { for (auto &I : P.ins) if (!op_is_movement(I.code)) return false; return true; }

struct Whole { int fail_at; string kind, msg; vector<Shape> shapes; bool eval_err; FV y; vector<FV> grads, sgd, adam; };
template <class OptT>
static vector<FV> run_opt(const Program &P, DevCtx &dc, OptT &opt, const FV &w) {
  ParamSet ps;
  { Graph g; Graph::set_default(g); Exec<Node> ex(dc, ps); ex.run_all(P); }
  for (auto &e : ps.ps) opt.add(*e.second);
  for (int step = 0; step < 2; ++step) {
    opt.reset_gradients();
    Graph g; Graph::set_default(g); Exec<Node> ex(dc, ps); ex.run_all(P);
    Node y = ex.v.at(P.out);
    F::multiply(y, F::input<Node>(y.shape(), w, &y.device())).backward();
    opt.update();
  }
  vector<FV> r; for (auto &e : ps.ps) r.push_back(e.second->value().to_vector());
  return r;
}
static Whole run_whole(const Program &P, const string &map) {
  Whole r; r.eval_err = false; r.fail_at = -1;
  DevCtx dc = g_devs->ctx(map); Device::set_default(*dc.dev[0]);
  FV w;
  {
    ParamSet ps; Graph g; Graph::set_default(g); Exec<Node> ex(dc, ps);
    r.fail_at = run_until_error(ex, P, r.kind, r.msg);
    for (auto &n : ex.v) r.shapes.push_back(n.shape());
    if (r.fail_at >= 0) return r;
    try {
      Node y = ex.v.at(P.out); r.y = y.to_vector(); w = weights(P.w, r.y.size());
      for (auto &e : ps.ps) e.second->reset_gradient();
      F::multiply(y, F::input<Node>(y.shape(), w, &y.device())).backward();
      for (auto &e : ps.ps) r.grads.push_back(e.second->gradient().to_vector());
    } catch (Error &e) { r.eval_err = true; r.msg = e.what(); return r; }
  }
  if (!all_finite(r.y)) return r;
  try {
    { optimizers::SGD o(0.01f); r.sgd = run_opt(P, dc, o, w); }
    { optimizers::Adam o(0.01f); r.adam = run_opt(P, dc, o, w); }
  } catch (Error &e) { r.eval_err = true; r.msg = string("optimizer run: ") + e.what(); }
  return r;
}
// `noise`: the same tensors from the reference backend with all leaves perturbed by 2^-21 relative.
// A deviation between backends is "float32 rounding" if it is within TOL_WHOLE, or within 16x what
// that rounding-level perturbation of the inputs does to the reference itself (ill-conditioned
// programs, e.g. after an optimizer step moved a parameter next to a singularity; counted).
static bool cmp_tensors(const string &what, const vector<FV> &ref, const vector<FV> &oth, bool bitwise, Stats &st, string &why,
                        const vector<FV> *mask_grads = nullptr, const vector<FV> *noise = nullptr) {
  if (ref.size() != oth.size()) { why = what + ": tensor count " + S(ref.size()) + " vs " + S(oth.size()); return false; }
  for (size_t t = 0; t < ref.size(); ++t) {
    if (ref[t].size() != oth[t].size()) { why = what + ": size of tensor " + S(t); return false; }
    // NOT COMPARED (counted; progcheck.py bounds their share of whole_tensors_compared + skipped, tag prog-floor)
    if (!all_finite(ref[t])) { st.extra["skipped_nonfinite_reference_tensors"]++; continue; }
    if (maxabs(ref[t]) > 1e6) { st.extra["skipped_reference_above_1e6_tensors"]++; continue; }
    st.extra["whole_tensors_compared"]++;
    double mx = std::max(1.0, (double)maxabs(ref[t])), gth = 0;
    if (mask_grads) gth = 1e-3 * std::max(1.0, (double)maxabs((*mask_grads)[t]));
    for (size_t i = 0; i < ref[t].size(); ++i) {
      float a = ref[t][i], b = oth[t][i];
      if (std::isnan(a) && std::isnan(b)) continue;
      if (mask_grads && std::fabs((*mask_grads)[t][i]) < gth) { st.extra["adam_elements_excluded"]++; continue; }
      if (bitwise) { if (bits(a) != bits(b)) { why = what + " (bit-exact program): tensor " + S(t) + " elem " + S(i) + ": " + fmt(a) + " vs " + fmt(b); return false; } continue; }
      double dev = std::fabs((double)a - (double)b) / mx;
      double &m = st.maxdev["whole_" + what.substr(0, what.find(' '))]; m = std::max(m, dev);
      if (!(dev <= TOL_WHOLE) && noise && t < noise->size() && (*noise)[t].size() == ref[t].size()) {
        double nd = 0; for (size_t q = 0; q < ref[t].size(); ++q) nd = std::max(nd, std::fabs((double)ref[t][q] - (double)(*noise)[t][q]) / mx);
        // a non-finite noise run (the 2^-21 perturbation left the domain) says nothing about the size of the
        // deviation: the element is accepted but counted as skipped, and the count is bounded by progcheck.py
        if (!std::isfinite(nd)) { st.extra["skipped_nonfinite_noise_elements"]++; continue; }
        if (dev <= 16 * nd) { st.extra["illconditioned_tensors_widened"]++; continue; }
      }
      if (!(dev <= TOL_WHOLE)) { why = what + ": tensor " + S(t) + " elem " + S(i) + ": " + fmt(a) + " vs " + fmt(b) + " (rel " + fmt(dev) + ")"; return false; }
    }
  }
  return true;
}
static Verdict check_backend(const Program &P, Stats &st) {
  Verdict vd;
  // ---------- (a) per instruction, re-synchronised, Tensor API
  {
    DevCtx dn = g_devs->ctx("NN"), de = g_devs->ctx("EE"); Device::set_default(*dn.dev[0]);
    ParamSet psn, pse; Exec<Tensor> en(dn, psn), ee(de, pse);
    for (size_t i = 0; i < P.ins.size(); ++i) {
      const Instr &I = P.ins[i]; string kn, mn, ke, me; size_t before = en.v.size();
      int fn = -1, fe = -1;
      try { en.run(I, (int)i); } catch (Error &e) { fn = (int)i; kn = "Error"; mn = e.what(); } catch (BadProgram &e) { return Verdict::F("bad-program " + e.msg); }
      if (fn >= 0) en.v.resize(before);
      // arguments for Eigen: Naive's values
      vector<Shape> ashapes; double ma = 0, mb = 1; bool argok = true;
      for (size_t k = 0; k < I.a.size(); ++k) {
        int a = I.a[k]; if (a < 0 || a >= (int)before) { argok = false; break; }
        const Tensor &t = en.v[a]; FV h = t.to_vector(); ashapes.push_back(t.shape());
        if (k == 0) ma = maxabs(h); else mb = std::max(mb, (double)maxabs(h));
        int d = &t.device() == dn.dev[1] ? 1 : 0;
        ee.v[a] = F::input<Tensor>(t.shape(), h, de.dev[d]);
      }
      if (!argok) return Verdict::F("bad-program argument id");
      try { ee.run(I, (int)i); } catch (Error &e) { fe = (int)i; ke = "Error"; me = e.what(); }
      if (fe >= 0) ee.v.resize(before);
      if ((fn >= 0) != (fe >= 0))
        return Verdict::F("accept-differs instr " + S(i) + " `" + print_instr(I) + "`: naive " + (fn >= 0 ? "rejects (" + mn + ")" : "accepts") + ", eigen " + (fe >= 0 ? "rejects (" + me + ")" : "accepts"));
      if (fn >= 0) { st.invalid++; st.rejected++; vd.nontrivial = true; break; }
      if (en.v.size() != ee.v.size()) return Verdict::F("value-count instr " + S(i));
      bool rnd = op_is_random(I.code) || (I.code == OP_DROPOUT && !I.n.empty() && I.n[0]);
      for (size_t k = before; k < en.v.size(); ++k) {
        if (en.v[k].shape() != ee.v[k].shape()) return Verdict::F("shape-differs instr " + S(i) + " `" + print_instr(I) + "`: naive " + en.v[k].shape().to_string() + " eigen " + ee.v[k].shape().to_string());
        if (rnd) continue;
        FV a = en.v[k].to_vector(), b = ee.v[k].to_vector();
        bool exact = op_is_movement(I.code);
        double K = (I.code == OP_POW || I.code == OP_POWK || I.code == OP_KPOW || I.code == OP_POWN) ? 64 : 16;
        double scale = std::max(std::max(1.0, (double)maxabs(a)), red_len(I, ashapes) * ma * mb);
        for (size_t j = 0; j < a.size(); ++j) {
          if (std::isnan(a[j]) && std::isnan(b[j])) continue;
          if (exact) { if (bits(a[j]) != bits(b[j])) return Verdict::F("op-bits instr " + S(i) + " `" + print_instr(I) + "` elem " + S(j) + ": naive=" + fmt(a[j]) + " eigen=" + fmt(b[j])); continue; }
          if (a[j] == b[j]) { st.maxdev[string("op_") + OP_NAMES[I.code]]; continue; }   // equal, incl. two infinities of the same sign (inf - inf is NaN)
          double dev = std::fabs((double)a[j] - (double)b[j]) / (EPS32 * scale);
          double &m = st.maxdev[string("op_") + OP_NAMES[I.code]]; m = std::max(m, dev);
          if (!(dev <= K)) return Verdict::F("op-value instr " + S(i) + " `" + print_instr(I) + "` elem " + S(j) + ": naive=" + fmt(a[j]) + " eigen=" + fmt(b[j]) + " (" + fmt(dev) + " units of 2^-24*scale, allowed " + fmt(K) + ")");
        }
        st.compared += (long)a.size();
      }
    }
  }
  // ---------- (b) whole programs, Node API, four device maps
  Whole ref = run_whole(P, "NN");
  g_leaf_perturb = 1; Whole nz; try { nz = run_whole(P, "NN"); } catch (...) { g_leaf_perturb = 0; throw; } g_leaf_perturb = 0;
  const vector<FV> nzy = {nz.y};
  bool exact = exact_program(P);
  static const char *const maps[] = {"EE", "NE", "EN"};
  for (int m = 0; m < 3; ++m) {
    Whole o = run_whole(P, maps[m]); string tag = string(maps[m]) + " vs NN: ";
    if (o.fail_at != ref.fail_at) return Verdict::F("accept-differs " + tag + "first rejected instruction " + S(ref.fail_at) + " (NN) vs " + S(o.fail_at) + " " + o.msg);
    if (o.shapes.size() != ref.shapes.size()) return Verdict::F("shape-count " + tag);
    for (size_t k = 0; k < ref.shapes.size(); ++k) if (ref.shapes[k] != o.shapes[k]) return Verdict::F("static-shape " + tag + "value " + S(k));
    if (ref.fail_at >= 0) continue;
    if (o.eval_err != ref.eval_err) return Verdict::F("eval-differs " + tag + (ref.eval_err ? ref.msg : o.msg));
    if (ref.eval_err || !all_finite(ref.y)) { st.extra[ref.eval_err ? "whole_reference_eval_error" : "skipped_nonfinite_reference_programs"]++; continue; }
    string why;
    if (!cmp_tensors("value " + tag, {ref.y}, {o.y}, exact, st, why, nullptr, &nzy)) return Verdict::F("whole-" + why);
    if (!cmp_tensors("grad " + tag, ref.grads, o.grads, false, st, why, nullptr, &nz.grads)) return Verdict::F("whole-" + why);
    if (!cmp_tensors("sgd " + tag, ref.sgd, o.sgd, false, st, why, nullptr, &nz.sgd)) return Verdict::F("whole-" + why);
    if (!cmp_tensors("adam " + tag, ref.adam, o.adam, false, st, why, &ref.grads, &nz.adam)) return Verdict::F("whole-" + why);
    vd.nontrivial = true; st.extra[string("whole_") + maps[m]]++;
  }
  if (exact && ref.fail_at < 0) st.extra["bit_exact_programs"]++;
  return vd;
}

// =================================================================== conv: the documented functions
// conv2d is documented as a 2D CONVOLUTION:  y[i,j,c2] = sum_{a,b,c1} x[i*s0 - p0 + a*d0, j*s1 - p1 + b*d1, c1]
//   * w[u0-1-a, u1-1-b, c1, c2]  (kernel flipped; zero padding), max_pool2d as the maximum over the window
// restricted to the input.  Reference in double; tolerance 16 * 2^-24 * max(1, sum |terms|).
static Verdict check_conv_case(Rng &r, Stats &st, string &desc) {
  uint32_t H = r.range(1, 5), W = r.range(1, 5), C = r.range(1, 3), C2 = r.range(1, 3), B = r.range(1, 3);
  uint32_t p[2] = {r.u(3), r.u(3)}, s[2] = {r.range(1, 3), r.range(1, 3)}, d[2] = {r.range(1, 2), r.range(1, 2)}, u[2] = {r.range(1, 3), r.range(1, 3)};
  uint32_t bx = r.coin(0.6) ? B : 1, bw = r.coin(0.3) ? B : 1;
  if ((u[0] - 1) * d[0] + 1 > H + 2 * p[0]) u[0] = 1;
  if ((u[1] - 1) * d[1] + 1 > W + 2 * p[1]) u[1] = 1;
  Shape xs({H, W, C}, bx), ws({u[0], u[1], C, C2}, bw);
  FV x(xs.size()), w(ws.size()); uint64_t sd = r.next();
  for (size_t i = 0; i < x.size(); ++i) x[i] = leafval(sd, i, -1.5f, 1.5f);
  for (size_t i = 0; i < w.size(); ++i) w[i] = leafval(sd + 1, i, -1.5f, 1.5f);
  std::ostringstream o; o << "conv2d x=" << xs.to_string() << " w=" << ws.to_string() << " pad=" << p[0] << "," << p[1] << " stride=" << s[0] << "," << s[1] << " dil=" << d[0] << "," << d[1] << " seed=" << sd;
  desc = o.str();
  uint32_t yh = (H + 2 * p[0] - ((u[0] - 1) * d[0] + 1)) / s[0] + 1, yw = (W + 2 * p[1] - ((u[1] - 1) * d[1] + 1)) / s[1] + 1, yb = std::max(bx, bw);
  vector<double> ref((size_t)yh * yw * C2 * yb, 0.0), mag(ref.size(), 0.0);
  for (uint32_t b = 0; b < yb; ++b) for (uint32_t c2 = 0; c2 < C2; ++c2) for (uint32_t j = 0; j < yw; ++j) for (uint32_t i = 0; i < yh; ++i) {
    double acc = 0, m = 0;
    for (uint32_t c1 = 0; c1 < C; ++c1) for (uint32_t bq = 0; bq < u[1]; ++bq) for (uint32_t a = 0; a < u[0]; ++a) {
      long xi = (long)i * s[0] - p[0] + (long)a * d[0], xj = (long)j * s[1] - p[1] + (long)bq * d[1];
      if (xi < 0 || xi >= (long)H || xj < 0 || xj >= (long)W) continue;
      double xv = x[(bx > 1 ? b : 0) * H * W * C + (c1 * W + xj) * H + xi];
      double wv = w[(bw > 1 ? b : 0) * ws.volume() + ((c2 * C + c1) * u[1] + (u[1] - 1 - bq)) * u[0] + (u[0] - 1 - a)];
      acc += xv * wv; m += std::fabs(xv * wv);
    }
    size_t k = ((b * C2 + c2) * yw + j) * yh + i; ref[k] = acc; mag[k] = m;
  }
  Device *devs2[2] = {&g_devs->na, &g_devs->ea};
  for (int dv = 0; dv < 2; ++dv) {
    Tensor y = F::conv2d(F::input<Tensor>(xs, x, devs2[dv]), F::input<Tensor>(ws, w, devs2[dv]), p[0], p[1], s[0], s[1], d[0], d[1]);
    if (y.shape() != Shape({yh, yw, C2}, yb)) return Verdict::F(string("conv-shape ") + (dv ? "eigen " : "naive ") + y.shape().to_string());
    FV h = y.to_vector();
    for (size_t k = 0; k < h.size(); ++k) {
      double tol = 16 * EPS32 * std::max(1.0, mag[k]);
      if (!(std::fabs(h[k] - ref[k]) <= tol)) return Verdict::F(string("conv-value ") + (dv ? "eigen" : "naive") + " elem " + S(k) + ": library=" + fmt(h[k]) + " convolution=" + fmt(ref[k]));
    }
    st.compared += (long)h.size();
  }
  // max_pool2d on x
  uint32_t wn[2] = {r.range(1, std::min(3u, H + 0)), r.range(1, std::min(3u, W + 0))}, pp[2] = {r.u(wn[0]), r.u(wn[1])}, ss[2] = {r.range(1, 3), r.range(1, 3)};
  std::ostringstream o2; o2 << " ; max_pool2d window=" << wn[0] << "," << wn[1] << " pad=" << pp[0] << "," << pp[1] << " stride=" << ss[0] << "," << ss[1];
  desc += o2.str();
  uint32_t ph = (H + 2 * pp[0] - wn[0]) / ss[0] + 1, pw = (W + 2 * pp[1] - wn[1]) / ss[1] + 1;
  for (int dv = 0; dv < 2; ++dv) {
    Tensor y = F::max_pool2d(F::input<Tensor>(xs, x, devs2[dv]), wn[0], wn[1], pp[0], pp[1], ss[0], ss[1]);
    if (y.shape() != Shape({ph, pw, C}, bx)) return Verdict::F(string("pool-shape ") + (dv ? "eigen " : "naive ") + y.shape().to_string());
    FV h = y.to_vector();
    for (uint32_t rr = 0; rr < C * bx; ++rr) for (uint32_t j = 0; j < pw; ++j) for (uint32_t i = 0; i < ph; ++i) {
      bool any = false; float best = 0;
      for (uint32_t bq = 0; bq < wn[1]; ++bq) for (uint32_t a = 0; a < wn[0]; ++a) {
        long xi = (long)i * ss[0] - pp[0] + a, xj = (long)j * ss[1] - pp[1] + bq;
        if (xi < 0 || xi >= (long)H || xj < 0 || xj >= (long)W) continue;
        float v = x[rr * H * W + xj * H + xi]; if (!any || v > best) { best = v; any = true; }
      }
      float got = h[(rr * pw + j) * ph + i];
      if (any && bits(got) != bits(best)) return Verdict::F(string("pool-value ") + (dv ? "eigen" : "naive") + ": library=" + fmt(got) + " max over window=" + fmt(best));
    }
    st.compared += (long)h.size();
  }
  Verdict v; v.nontrivial = true; return v;
}
