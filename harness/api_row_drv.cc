// C04 (tables engine): invoke one function of primitiv::functions, named as in the regenerated
// table (namespace, Node function name, parameter types, path variant), through BOTH APIs with
// small valid default arguments and compare: accepted / Error, Node::shape() before evaluation,
// values.  Also the exhaustive small-scope sweep of the four operators whose Tensor function
// is a composite (split, batch::split, softmax_cross_entropy dense / sparse).
//
// stdin lines:
//   call <ns> <name> <types,csv> <variant>     variant: none | a-scalar | b-scalar | both-scalar | empty
//   sweep
// stdout, one line per input line:
//   call: "<agree|DIFF|unknown-function> T=<..> N=<..>"      sweep: "sweep cases=<n> accepted=<k> diffs=<d> [first diffs]"
#include <primitiv/primitiv.h>
#include <functional>
#include <iostream>
#include <sstream>
#include <typeinfo>
#include "pvh.h"

using namespace primitiv;
namespace F = primitiv::functions;
typedef std::vector<std::uint32_t> U32s;

static std::vector<float> data_for(const Shape &s) {
  std::vector<float> v(s.size());
  for (std::size_t i = 0; i < v.size(); ++i) v[i] = 0.25f * static_cast<float>((i * 7) % 5) + 0.5f;
  return v;
}
// data of the SECOND operand of a function of two tensors: other values (0.5,1,1.5,0.75 vs 1.5,2.25,1.25,2 on
// the 2x2 default; never 1, the scalar is 1.25), so that f(A,B) != f(B,A) for subtract / divide / pow / matmul / concat / conv2d / the dense
// cross entropy, and a Node function that swaps or duplicates its operands changes the result.
// (engines/c04.py builds the same operand for the model: qdata2.)
static std::vector<float> data_b(const Shape &s) {
  std::vector<float> v(s.size());
  for (std::size_t i = 0; i < v.size(); ++i) v[i] = 0.25f * static_cast<float>((i * 3 + 1) % 7) + 1.25f;
  return v;
}
static std::string vals(const Tensor &t) {
  std::string o = t.shape().to_string() + ":";
  for (float f : t.to_vector()) { char b[40]; snprintf(b, sizeof b, "%.9g,", static_cast<double>(f)); o += b; }
  return o;
}
static std::string clip(const std::string &s) {
  std::string m = s;
  std::size_t p = m.find(": ");          // drop "<file>: <line>: "
  if (p != std::string::npos) { std::size_t q = m.find(": ", p + 2); if (q != std::string::npos) m = m.substr(q + 2); }
  for (char &c : m) if (c == '\n' || c == ' ') c = '_';
  return m.substr(0, 70);
}

template <class V> struct Make;
template <> struct Make<Tensor> {
  static Tensor in(const Shape &s) { return F::input<Tensor>(s, data_for(s)); }
  static Tensor in2(const Shape &s) { return F::input<Tensor>(s, data_b(s)); }
  static std::string show(const Tensor &t) { return vals(t); }
  static std::string stat(const Tensor &t) { return t.shape().to_string(); }
};
template <> struct Make<Node> {
  static Node in(const Shape &s) { return F::input<Node>(s, data_for(s)); }
  static Node in2(const Shape &s) { return F::input<Node>(s, data_b(s)); }
  static std::string show(const Node &n) { return vals(n.graph().forward(n)); }
  static std::string stat(const Node &n) { return n.shape().to_string(); }
};
template <class V> struct Rand;     // the *_node / *_tensor creation functions
template <> struct Rand<Tensor> {
  static Tensor input(const Shape &s) { return F::input_tensor(s, data_for(s), nullptr); }
  static Tensor parameter(Parameter &p) { return F::parameter_tensor(p); }
  static Tensor constant(const Shape &s, float k) { return F::constant_tensor(s, k, nullptr); }
  static Tensor identity(std::uint32_t n) { return F::identity_tensor(n, nullptr); }
  static Tensor bernoulli(const Shape &s, float p) { return F::random::bernoulli_tensor(s, p, nullptr); }
  static Tensor uniform(const Shape &s, float l, float u) { return F::random::uniform_tensor(s, l, u, nullptr); }
  static Tensor normal(const Shape &s, float m, float sd) { return F::random::normal_tensor(s, m, sd, nullptr); }
  static Tensor log_normal(const Shape &s, float m, float sd) { return F::random::log_normal_tensor(s, m, sd, nullptr); }
  static Tensor gumbel(const Shape &s, float m, float b) { return F::random::gumbel_tensor(s, m, b, nullptr); }
};
template <> struct Rand<Node> {
  static Node input(const Shape &s) { return F::input_node(s, data_for(s), nullptr, nullptr); }
  static Node parameter(Parameter &p) { return F::parameter_node(p, nullptr); }
  static Node constant(const Shape &s, float k) { return F::constant_node(s, k, nullptr, nullptr); }
  static Node identity(std::uint32_t n) { return F::identity_node(n, nullptr, nullptr); }
  static Node bernoulli(const Shape &s, float p) { return F::random::bernoulli_node(s, p, nullptr, nullptr); }
  static Node uniform(const Shape &s, float l, float u) { return F::random::uniform_node(s, l, u, nullptr, nullptr); }
  static Node normal(const Shape &s, float m, float sd) { return F::random::normal_node(s, m, sd, nullptr, nullptr); }
  static Node log_normal(const Shape &s, float m, float sd) { return F::random::log_normal_node(s, m, sd, nullptr, nullptr); }
  static Node gumbel(const Shape &s, float m, float b) { return F::random::gumbel_node(s, m, b, nullptr, nullptr); }
};

// returns false when the function is not in the dispatch table
template <class V>
bool invoke(const std::string &ns, const std::string &name, const std::string &tys, const std::string &variant,
            Parameter &param, std::vector<V> &out) {
  const Shape M({2, 2}), S{};
  const bool as = variant == "a-scalar" || variant == "both-scalar";
  const bool bs = variant == "b-scalar" || variant == "both-scalar";
  const std::uint32_t dim = 2;
  const U32s ids{0};
#define X1 Make<V>::in(M)
#define XA Make<V>::in(as ? S : M)
#define X2 Make<V>::in2(M)
#define XB Make<V>::in2(bs ? S : M)
#define R1(e) { out.push_back(e); return true; }
  if (ns == "functions") {
    if (name == "positive") R1(F::positive(X1));
    if (name == "negative") R1(F::negative(X1));
    if (name == "add" && tys == "X,float") R1(F::add(X1, 2.f));
    if (name == "add" && tys == "float,X") R1(F::add(2.f, X1));
    if (name == "add" && tys == "X,X") R1(F::add(XA, XB));
    if (name == "subtract" && tys == "X,float") R1(F::subtract(X1, 2.f));
    if (name == "subtract" && tys == "float,X") R1(F::subtract(2.f, X1));
    if (name == "subtract" && tys == "X,X") R1(F::subtract(XA, XB));
    if (name == "multiply" && tys == "X,float") R1(F::multiply(X1, 2.f));
    if (name == "multiply" && tys == "float,X") R1(F::multiply(2.f, X1));
    if (name == "multiply" && tys == "X,X") R1(F::multiply(XA, XB));
    if (name == "divide" && tys == "X,float") R1(F::divide(X1, 2.f));
    if (name == "divide" && tys == "float,X") R1(F::divide(2.f, X1));
    if (name == "divide" && tys == "X,X") R1(F::divide(XA, XB));
    if (name == "pow" && tys == "X,float") R1(F::pow(X1, 2.f));
    if (name == "pow" && tys == "float,X") R1(F::pow(2.f, X1));
    if (name == "pow" && tys == "X,X") R1(F::pow(XA, XB));
    if (name == "pown") R1(F::pown(X1, 2));
    if (name == "input_node") R1(Rand<V>::input(M));
    if (name == "parameter_node") R1(Rand<V>::parameter(param));
    if (name == "copy") R1(F::copy(X1, nullptr));
    if (name == "pick") R1(F::pick(X1, ids, dim));
    if (name == "slice") R1(F::slice(X1, 0, 0, 1));
    if (name == "split") { out = F::split(X1, 0, 2); return true; }
    if (name == "concat<X>" && tys == "vec<X>,u32") {
      std::vector<V> xs; if (variant != "empty") { xs.push_back(X1); xs.push_back(X2); }
      R1(F::concat(xs, 0));
    }
    if (name == "concat<X>" && tys == "vec<X*>,u32") {
      V a = X1, b = X2; std::vector<const V *> xs; if (variant != "empty") { xs.push_back(&a); xs.push_back(&b); }
      R1(F::concat(xs, 0));
    }
    if (name == "reshape") R1(F::reshape(X1, Shape({4})));
    if (name == "flatten") R1(F::flatten(X1));
    if (name == "transpose") R1(F::transpose(X1));
    if (name == "flip") R1(F::flip(X1, 0));
    if (name == "permute_dims") R1(F::permute_dims(X1, U32s{1, 0}));
    if (name == "matmul") R1(F::matmul(X1, X2));
    if (name == "abs") R1(F::abs(X1));
    if (name == "sqrt") R1(F::sqrt(X1));
    if (name == "exp") R1(F::exp(X1));
    if (name == "log") R1(F::log(X1));
    if (name == "tanh") R1(F::tanh(X1));
    if (name == "sigmoid") R1(F::sigmoid(X1));
    if (name == "softplus") R1(F::softplus(X1));
    if (name == "sin") R1(F::sin(X1));
    if (name == "cos") R1(F::cos(X1));
    if (name == "tan") R1(F::tan(X1));
    if (name == "relu") R1(F::relu(X1));
    if (name == "lrelu") R1(F::lrelu(X1));
    if (name == "prelu") R1(F::prelu(X1, .5f));
    if (name == "elu") R1(F::elu(X1, .5f));
    if (name == "max") R1(F::max(X1, 0));
    if (name == "min") R1(F::min(X1, 0));
    if (name == "sum") R1(F::sum(X1, 0));
    if (name == "broadcast") R1(F::broadcast(X1, dim, 3));
    if (name == "logsumexp") R1(F::logsumexp(X1, 0));
    if (name == "log_softmax") R1(F::log_softmax(X1, 0));
    if (name == "softmax") R1(F::softmax(X1, 0));
    if (name == "softmax_cross_entropy" && tys == "X,X,u32") R1(F::softmax_cross_entropy(X1, X2, 0));
    if (name == "softmax_cross_entropy" && tys == "X,vec<u32>,u32") R1(F::softmax_cross_entropy(X1, ids, 0));
    if (name == "stop_gradient") R1(F::stop_gradient(X1));
    if (name == "conv2d") R1(F::conv2d(X1, X2, 0, 0, 1, 1, 1, 1));
    if (name == "max_pool2d") R1(F::max_pool2d(X1, 1, 1, 0, 0, 1, 1));
    if (name == "constant_node") R1(Rand<V>::constant(M, 2.f));
    if (name == "identity_node") R1(Rand<V>::identity(2));
  } else if (ns == "functions::batch") {
    const Shape B({2}, 2);
    if (name == "pick") R1(F::batch::pick(Make<V>::in(B), ids));
    if (name == "slice") R1(F::batch::slice(Make<V>::in(B), 0, 1));
    if (name == "split") { out = F::batch::split(Make<V>::in(B), 2); return true; }
    if (name == "concat<X>" && tys == "vec<X>") {
      std::vector<V> xs; if (variant != "empty") { xs.push_back(X1); xs.push_back(X2); }
      R1(F::batch::concat(xs));
    }
    if (name == "concat<X>" && tys == "vec<X*>") {
      V a = X1, b = X2; std::vector<const V *> xs; if (variant != "empty") { xs.push_back(&a); xs.push_back(&b); }
      R1(F::batch::concat(xs));
    }
    if (name == "sum") R1(F::batch::sum(Make<V>::in(B)));
  } else if (ns == "functions::random") {
    if (name == "bernoulli_node") R1(Rand<V>::bernoulli(M, .5f));
    if (name == "uniform_node") R1(Rand<V>::uniform(M, 0.f, 1.f));
    if (name == "normal_node") R1(Rand<V>::normal(M, 0.f, 1.f));
    if (name == "log_normal_node") R1(Rand<V>::log_normal(M, 0.f, 1.f));
    if (name == "gumbel_node") R1(Rand<V>::gumbel(M, 0.f, 1.f));
  }
  return false;
#undef X1
#undef X2
#undef XA
#undef XB
#undef R1
}

template <class V>
std::string run_api(const std::string &ns, const std::string &name, const std::string &tys, const std::string &variant,
                    bool *known, bool values) {
  devices::Naive dev(12345);   // same seed for both APIs: the random functions draw the same numbers
  Device::set_default(dev);
  Graph g;
  Graph::set_default(g);
  Parameter param(Shape({2, 2}), initializers::Constant(1.5f), dev);
  std::vector<V> out;
  std::string stat;
  try {
    *known = true;   // an Error thrown by the call itself means the function was found
    if (!invoke<V>(ns, name, tys, variant, param, out)) { *known = false; return "unknown"; }
    for (const V &v : out) stat += Make<V>::stat(v) + ";";
  } catch (const primitiv::Error &e) {
    return std::string("err@create:") + clip(e.what());
  }
  try {
    std::string s = "ok " + stat + " ";
    if (values) for (const V &v : out) {
      std::string sv = Make<V>::show(v);
      s += sv + ";";
    }
    return s;
  } catch (const primitiv::Error &e) {
    return std::string("ok ") + stat + " err@eval:" + clip(e.what());
  }
}

static std::string verdict(const std::string &t, const std::string &n) {
  // Tensor API has no separate creation step: its error (if any) is "err@create"
  const bool tok = t.compare(0, 3, "ok ") == 0 && t.find("err@eval") == std::string::npos;
  const bool nok = n.compare(0, 3, "ok ") == 0 && n.find("err@eval") == std::string::npos;
  if (tok != nok) return "DIFF";
  if (tok && t != n) return "DIFF";
  // both err: "every Tensor-API error is reported at Node CREATION": a Node that is created and fails only
  // when evaluated does not agree (none of these rows mixes devices or passes distribution parameters)
  if (!tok && n.compare(0, 11, "err@create:") != 0) return "DIFF";
  return "agree";
}

// ---- exhaustive small-scope sweep of the composite operators
template <class Fn> static std::string tryit(Fn f) {
  try { return f(); }
  catch (const primitiv::Error &) { return "err"; }
  catch (const std::exception &e) { return std::string("other-exception:") + typeid(e).name(); }   // e.g. std::bad_alloc: never acceptable
}

static std::string sweep() {
  devices::Naive dev; Device::set_default(dev);
  std::vector<Shape> shapes;
  std::vector<U32s> dl = {{}, {1}, {2}, {3}, {1, 2}, {2, 2}, {2, 3}, {3, 2}, {1, 1, 2}, {2, 1, 2}, {1, 2, 3}};
  for (auto &d : dl) for (std::uint32_t b : {1u, 2u, 3u}) shapes.push_back(Shape(d, b));
  U32s dims = {0, 1, 2, 3, 7, 8, 9, 4294967295u};
  long n = 0, bad = 0, okc = 0;
  std::ostringstream first;
  auto cmp = [&](const std::string &what, const std::string &a, const std::string &b) {
    ++n; if (a != "err") ++okc;
    if (a != b || a.compare(0, 15, "other-exception") == 0) { ++bad; if (bad <= 3) first << " [" << what << " tensor=" << a.substr(0, 60) << " node=" << b.substr(0, 60) << "]"; }
  };
  auto nodevals = [](const std::vector<Node> &r) {
    std::string st, s;
    for (auto &t : r) st += t.shape().to_string() + ";";        // static shapes first
    for (auto &t : r) {
      std::string v = vals(t.graph().forward(t));
      if (v.compare(0, t.shape().to_string().size(), t.shape().to_string()) != 0) return std::string("static-shape-mismatch");
      s += v + ";";
    }
    return s;
  };
  // Node side: "err" only when the CREATION throws Error; an Error at evaluation is "err@eval" and never equals
  // the Tensor side (every Tensor-API error must be reported when the node is created)
  auto trynode = [&](const std::function<std::vector<Node>()> &create) {
    Graph g; Graph::set_default(g);
    std::vector<Node> r;
    std::string c = tryit([&] { r = create(); return std::string(); });
    if (!c.empty()) return c;
    std::string v = tryit([&] { return nodevals(r); });
    return v == "err" ? std::string("err@eval") : v;
  };
  for (auto &sx : shapes) {
    for (auto dim : dims) {
      for (std::uint32_t nn : {0u, 1u, 2u, 3u, 4u, 2147483648u, 4294967295u}) {
        std::ostringstream w; w << "split_" << sx.to_string() << "_dim=" << dim << "_n=" << nn;
        std::string a = tryit([&] { Tensor x = F::input<Tensor>(sx, data_for(sx)); auto r = F::split(x, dim, nn); std::string s; for (auto &t : r) s += vals(t) + ";"; return s; });
        std::string b = trynode([&] { Node x = F::input<Node>(sx, data_for(sx)); return F::split(x, dim, nn); });
        cmp(w.str(), a, b);
      }
      for (auto &ids : std::vector<U32s>{{0}, {1}, {2}, {0, 1}, {0, 1, 2}, {}}) {
        std::ostringstream w; w << "sparse_sce_" << sx.to_string() << "_dim=" << dim << "_ids#" << ids.size() << ":" << (ids.empty() ? 0 : ids[0]);
        std::string a = tryit([&] { Tensor x = F::input<Tensor>(sx, data_for(sx)); return vals(F::softmax_cross_entropy(x, ids, dim)) + ";"; });
        std::string b = trynode([&] { Node x = F::input<Node>(sx, data_for(sx)); return std::vector<Node>{F::softmax_cross_entropy(x, ids, dim)}; });
        cmp(w.str(), a, b);
      }
      for (auto &st : shapes) {
        std::ostringstream w; w << "sce_" << sx.to_string() << "_" << st.to_string() << "_dim=" << dim;
        std::string a = tryit([&] { Tensor x = F::input<Tensor>(sx, data_for(sx)); Tensor t = F::input<Tensor>(st, data_b(st)); return vals(F::softmax_cross_entropy(x, t, dim)) + ";"; });
        std::string b = trynode([&] { Node x = F::input<Node>(sx, data_for(sx)); Node t = F::input<Node>(st, data_b(st)); return std::vector<Node>{F::softmax_cross_entropy(x, t, dim)}; });
        cmp(w.str(), a, b);
      }
    }
    for (std::uint32_t nn : {0u, 1u, 2u, 3u, 4u, 6u, 2147483648u, 4294967295u}) {
      std::ostringstream w; w << "batch_split_" << sx.to_string() << "_n=" << nn;
      std::string a = tryit([&] { Tensor x = F::input<Tensor>(sx, data_for(sx)); auto r = F::batch::split(x, nn); std::string s; for (auto &t : r) s += vals(t) + ";"; return s; });
      std::string b = trynode([&] { Node x = F::input<Node>(sx, data_for(sx)); return F::batch::split(x, nn); });
      cmp(w.str(), a, b);
    }
  }
  std::ostringstream o;
  o << "sweep cases=" << n << " accepted=" << okc << " diffs=" << bad << first.str();
  return o.str();
}

int main() {
  std::string line;
  while (std::getline(std::cin, line)) {
    auto t = pvh::tokens(line);
    if (t.empty()) { std::cout << "skip" << std::endl; continue; }
    try {
      if (t[0] == "sweep") { std::cout << sweep() << std::endl; continue; }
      if (t[0] == "call" && t.size() >= 5) {
        bool k1 = false, k2 = false;
        const bool values = true;
        std::string a = run_api<Tensor>(t[1], t[2], t[3], t[4], &k1, values);
        std::string b = run_api<Node>(t[1], t[2], t[3], t[4], &k2, values);
        if (!k1 || !k2) { std::cout << "unknown-function" << std::endl; continue; }
        for (char &c : a) if (c == ' ') c = '_';
        for (char &c : b) if (c == ' ') c = '_';
        // (spaces were the ok/shape separators; restore the leading "ok ")
        std::string ta = a, tb = b;
        if (ta.compare(0, 3, "ok_") == 0) ta[2] = ' ';
        if (tb.compare(0, 3, "ok_") == 0) tb[2] = ' ';
        std::cout << verdict(ta, tb) << " T=" << a << " N=" << b << std::endl;
        continue;
      }
      std::cout << "bad-line" << std::endl;
    } catch (const std::exception &e) {
      std::cout << "other-exception " << e.what() << std::endl;
    }
  }
  return 0;
}
