// elem_pair_drv: every elementwise Device entry point (forward and backward; unary, constant,
// scalar-operand, binary, pown) evaluated on devices::Naive and on devices::Eigen over a grid that
// includes the ends of the float32 range (overflow thresholds of exp, huge/tiny magnitudes, signed
// zeros, denormals, +-inf, NaN), in vectors whose length exercises Eigen's packet body and scalar
// tail.  C08: same accept/reject, same shapes, same values up to float32 rounding.
// Output: `DIFF <op> <fw|bw..> i=<index> x=<..> [k=<..>] naive=<..> eigen=<..>` per disagreement,
// then `SUMMARY ops=<n> values=<n> diffs=<n>`.
#include <primitiv/primitiv.h>
#include <cmath>
#include <cstdio>
#include <cstring>
#include <limits>
#include <string>
#include <vector>
using namespace primitiv;
typedef std::vector<float> V;

typedef Tensor (Device::*Fw1)(const Tensor &);
typedef void (Device::*Bw1)(const Tensor &, const Tensor &, const Tensor &, Tensor &);
typedef Tensor (Device::*FwC)(const Tensor &, float);
typedef void (Device::*BwC)(const Tensor &, const Tensor &, const Tensor &, float, Tensor &);
typedef Tensor (Device::*Fw2)(const Tensor &, const Tensor &);
typedef void (Device::*Bw2)(const Tensor &, const Tensor &, const Tensor &, const Tensor &, Tensor &, Tensor &);

static long n_ops = 0, n_vals = 0, n_diffs = 0;
static double REL = 2e-5;   // |naive - eigen| <= REL * max(1, |naive|, |eigen|)

static int cls(float v) { return v != v ? 0 : (std::isinf(v) ? (v > 0 ? 1 : 2) : 3); }
static bool agree(float a, float b) {
  int ca = cls(a), cb = cls(b);
  if (ca != cb) return false;
  if (ca != 3) return true;
  double d = std::fabs((double)a - (double)b), m = std::fmax(1.0, std::fmax(std::fabs((double)a), std::fabs((double)b)));
  return d <= REL * m;
}
static void cmp(const std::string &op, const std::string &what, const V &x, const std::string &kdesc, const V &n, const V &e) {
  ++n_ops;
  if (n.size() != e.size()) { ++n_diffs; std::printf("DIFF %s %s sizes naive=%zu eigen=%zu\n", op.c_str(), what.c_str(), n.size(), e.size()); return; }
  int shown = 0;
  for (size_t i = 0; i < n.size(); ++i) {
    ++n_vals;
    if (!agree(n[i], e[i])) {
      ++n_diffs;
      if (shown++ < 4) std::printf("DIFF %s %s i=%zu x=%.9g%s naive=%.9g eigen=%.9g\n", op.c_str(), what.c_str(), i, x[i % x.size()], kdesc.c_str(), n[i], e[i]);
    }
  }
}
template <class Fn> static bool run(Fn f, V &out) {
  try { out = f(); return true; } catch (Error &) { out.clear(); return false; }
}
#define BOTH(op, what, xs, kdesc, EXPR) { V rn, re; bool an, ae; \
  { Device &dev = naive; an = run([&]() -> V { return (EXPR); }, rn); } \
  { Device &dev = eigen; ae = run([&]() -> V { return (EXPR); }, re); } \
  if (an != ae) { ++n_diffs; std::printf("DIFF %s %s accept naive=%d eigen=%d%s\n", op, what, (int)an, (int)ae, std::string(kdesc).c_str()); } \
  else if (an) cmp(op, what, xs, kdesc, rn, re); }

static V grid() {
  const float inf = std::numeric_limits<float>::infinity();
  V pos = {1e-45f, 1e-40f, 1.2e-38f, 1e-30f, 1e-20f, 1e-6f, 1e-3f, 0.1f, 0.5f, 1.0f, 1.5f, 3.0f, 10.0f, 16.5f, 20.0f, 50.0f,
           80.0f, 87.0f, 88.0f, 88.5f, 88.7f, 89.0f, 100.0f, 103.0f, 104.0f, 1e3f, 1e4f, 1e10f, 1e19f, 1e20f, 1e30f, 3e38f, inf};
  V g = {0.0f, -0.0f, std::numeric_limits<float>::quiet_NaN()};
  for (float v : pos) { g.push_back(v); g.push_back(-v); }
  while (g.size() % 16 != 5) g.push_back(0.75f);   // packet body + a scalar tail
  return g;
}

int main(int argc, char **argv) {
  // default grid: finite, normal-range inputs; `edge` adds denormals, +-inf and NaN (informational)
  bool finite_only = !(argc > 1 && std::string(argv[1]) == "edge");
  devices::Naive naive(1u); devices::Eigen eigen(1u);
  V g0 = grid();
  if (finite_only) {
    V h;
    for (float v : g0) if (cls(v) == 3 && std::fabs(v) >= 1.17549435e-38f) h.push_back(v);
    h.push_back(0.0f);   // +0 only: -0 (sign of the singular derivatives) stays in the edge grid
    while (h.size() % 16 != 5) h.push_back(0.75f);
    g0 = h;
  }
  V grev(g0.rbegin(), g0.rend());
  const V gys = {1.0f, -0.5f, 2.25f};
  for (int arrangement = 0; arrangement < 2; ++arrangement) {
    const V &xs = arrangement ? grev : g0;
    const Shape sh({(std::uint32_t)xs.size()});
    V gyv(xs.size()); for (size_t i = 0; i < gyv.size(); ++i) gyv[i] = gys[i % 3];
#define X dev.new_tensor_by_vector(sh, xs)
#define GY dev.new_tensor_by_vector(sh, gyv)
#define ZERO dev.new_tensor_by_constant(sh, 0.0f)
#define U(n) BOTH(#n, "fw", xs, "", (dev.n##_fw(X).to_vector())) \
             BOTH(#n, "bw", xs, "", ([&]() { Tensor x = X, y = dev.n##_fw(x), gx = ZERO; dev.n##_bw(x, y, GY, gx); return gx.to_vector(); }()))
    BOTH("negate", "fw", xs, "", (dev.negate_fw(X).to_vector()))
    U(abs) U(sqrt) U(exp) U(log) U(tanh) U(sigmoid) U(softplus) U(sin) U(cos) U(tan)
    const V ks = {0.0f, 0.5f, -2.0f, 1.0f, 3.0f, -1.5f, 0.01f, 1e4f, 1.6732632f};
    for (float k : ks) {
      char kb[48]; std::snprintf(kb, sizeof kb, " k=%.9g", k); const std::string kd = kb;
#define C(n) BOTH(#n, "fw", xs, kd, (dev.n##_fw(X, k).to_vector())) \
             BOTH(#n, "bw", xs, kd, ([&]() { Tensor x = X, y = dev.n##_fw(x, k), gx = ZERO; dev.n##_bw(x, y, GY, k, gx); return gx.to_vector(); }()))
#define S(n) BOTH(#n, "fw", xs, kd, (dev.n##_fw(X, dev.new_tensor_by_constant(Shape(), k)).to_vector()))
      C(add_const) C(subtract_const_r) C(subtract_const_l) C(multiply_const) C(divide_const_r)
      C(divide_const_l) C(pow_const_r) C(pow_const_l) C(prelu) C(elu)
      S(add_scalar) S(subtract_scalar_r) S(subtract_scalar_l) S(multiply_scalar) S(divide_scalar_r)
      S(divide_scalar_l) S(pow_scalar_r) S(pow_scalar_l)
    }
    for (std::int32_t k : {-5, -3, -2, -1, 0, 1, 2, 3, 4, 7, 40, -40}) {
      char kb[48]; std::snprintf(kb, sizeof kb, " k=%d", k); const std::string kd = kb;
      BOTH("pown", "fw", xs, kd, (dev.pown_fw(X, k).to_vector()))
      BOTH("pown", "bw", xs, kd, ([&]() { Tensor x = X, y = dev.pown_fw(x, k), gx = ZERO; dev.pown_bw(x, y, GY, k, gx); return gx.to_vector(); }()))
    }
    // binary: x against a rotated copy of itself and against a few constants
    for (int rot : {1, 7, 13}) {
      V bs(xs.size()); for (size_t i = 0; i < xs.size(); ++i) bs[i] = xs[(i + rot) % xs.size()];
      char kb[48]; std::snprintf(kb, sizeof kb, " b=x[i+%d]", rot); const std::string kd = kb;
#define Bv dev.new_tensor_by_vector(sh, bs)
#define B(n) BOTH(#n, "fw", xs, kd, (dev.n##_fw(X, Bv).to_vector())) \
             BOTH(#n, "bw-a", xs, kd, ([&]() { Tensor a = X, b = Bv, y = dev.n##_fw(a, b), ga = ZERO, gb = ZERO; dev.n##_bw(a, b, y, GY, ga, gb); return ga.to_vector(); }())) \
             BOTH(#n, "bw-b", xs, kd, ([&]() { Tensor a = X, b = Bv, y = dev.n##_fw(a, b), ga = ZERO, gb = ZERO; dev.n##_bw(a, b, y, GY, ga, gb); return gb.to_vector(); }()))
      B(add) B(subtract) B(multiply) B(divide) B(pow)
    }
  }
  std::printf("SUMMARY ops=%ld values=%ld diffs=%ld\n", n_ops, n_vals, n_diffs);
  return 0;
}
