// prog_core.h -- program representation, text format, and the (Node|Tensor)-generic executor
// of the program-level oracle harness (harness/prog_drv.cc).  No model is involved anywhere:
// everything here calls primitiv::functions on the real library.
#ifndef PROG_CORE_H_
#define PROG_CORE_H_
#include <primitiv/primitiv.h>
#include <cmath>
#include <cstdio>
#include <cstdlib>
#include <cstring>
#include <map>
#include <memory>
#include <sstream>
#include <string>
#include <vector>

namespace prog {
using namespace primitiv;
namespace F = primitiv::functions;
using std::vector;
using std::string;
typedef vector<float> FV;

// ------------------------------------------------------------------ PRNG (own, portable)
static inline uint64_t mix64(uint64_t z) {
  z += 0x9E3779B97F4A7C15ull;
  z = (z ^ (z >> 30)) * 0xBF58476D1CE4E5B9ull;
  z = (z ^ (z >> 27)) * 0x94D049BB133111EBull;
  return z ^ (z >> 31);
}
struct Rng {
  uint64_t s;
  explicit Rng(uint64_t seed) : s(mix64(seed ^ 0x5851F42D4C957F2Dull)) {}
  uint64_t next() { s += 0x9E3779B97F4A7C15ull; return mix64(s); }
  uint32_t u(uint32_t n) { return n ? (uint32_t)(next() % n) : 0; }          // [0,n)
  uint32_t range(uint32_t lo, uint32_t hi) { return lo + u(hi - lo + 1); }   // [lo,hi]
  double d01() { return (next() >> 11) * (1.0 / 9007199254740992.0); }
  float f(float lo, float hi) { return (float)(lo + (hi - lo) * d01()); }
  bool coin(double p) { return d01() < p; }
};
// value i of a leaf: a pure function of (seed, i) so that slicing / replicating a leaf is exact
static inline float leafval(uint64_t seed, uint64_t i, float lo, float hi) {
  uint64_t z = mix64(seed * 0x2545F4914F6CDD1Dull + i);
  double u = (z >> 11) * (1.0 / 9007199254740992.0);
  return (float)(lo + (hi - lo) * u);
}

// ------------------------------------------------------------------ shapes in text form
struct Shp {
  vector<uint32_t> d; uint32_t b;
  Shp() : b(1) {}
  Shp(const vector<uint32_t> &dd, uint32_t bb) : d(dd), b(bb) {}
  explicit Shp(const Shape &s) : d(s.dims()), b(s.batch()) {}
  Shape shape() const { return Shape(d, b); }   // may throw primitiv::Error (zero dims, too deep)
  uint32_t at(uint32_t i) const { return i < d.size() ? d[i] : 1; }
  uint32_t depth() const { uint32_t k = d.size(); while (k > 0 && d[k - 1] == 1) --k; return k; }
  uint64_t volume() const { uint64_t v = 1; for (auto x : d) v *= x; return v; }
  uint64_t size() const { return volume() * b; }
  bool same_dims(const Shp &o) const {
    uint32_t k = std::max(depth(), o.depth());
    for (uint32_t i = 0; i < k; ++i) if (at(i) != o.at(i)) return false;
    return true;
  }
  string str() const {
    std::ostringstream o;
    for (size_t i = 0; i < d.size(); ++i) { if (i) o << ','; o << d[i]; }
    o << '/' << b; return o.str();
  }
};

// ------------------------------------------------------------------ opcodes
#define PROG_OPS(X) \
  X(PAR, "par") X(IN, "in") X(CONST, "const") X(ZEROS, "zeros") X(ONES, "ones") X(IDENT, "ident") \
  X(RBERN, "rbern") X(RUNIF, "runif") X(RNORM, "rnorm") X(RLNORM, "rlnorm") X(RGUMBEL, "rgumbel") \
  X(POS, "pos") X(NEG, "neg") X(ABS, "abs") X(SQRT, "sqrt") X(EXP, "exp") X(LOG, "log") X(TANH, "tanh") \
  X(SIGMOID, "sigmoid") X(SOFTPLUS, "softplus") X(SIN, "sin") X(COS, "cos") X(TAN, "tan") X(RELU, "relu") \
  X(LRELU, "lrelu") X(SELU, "selu") X(FLATTEN, "flatten") X(TRANSPOSE, "transpose") X(STOPGRAD, "stopgrad") \
  X(BSUM, "bsum") X(BMEAN, "bmean") X(BNORM, "bnorm") \
  X(ADDK, "addk") X(KADD, "kadd") X(SUBK, "subk") X(KSUB, "ksub") X(MULK, "mulk") X(KMUL, "kmul") \
  X(DIVK, "divk") X(KDIV, "kdiv") X(POWK, "powk") X(KPOW, "kpow") X(PRELU, "prelu") X(ELU, "elu") \
  X(SELU2, "selu2") X(DROPOUT, "dropout") \
  X(POWN, "pown") X(FLIP, "flip") X(SUM, "sum") X(MEAN, "mean") X(MAX, "max") X(MIN, "min") \
  X(LSE, "logsumexp") X(LSM, "logsoftmax") X(SOFTMAX, "softmax") X(BCAST, "bcast") X(SLICE, "slice") \
  X(PICK, "pick") X(SPLIT, "split") X(PERMUTE, "permute") X(RESHAPE, "reshape") X(COPY, "copy") \
  X(SSCE, "ssce") X(MAXPOOL, "maxpool") X(BPICK, "bpick") X(BSLICE, "bslice") X(BSPLIT, "bsplit") \
  X(ADD, "add") X(SUB, "sub") X(MUL, "mul") X(DIV, "div") X(POW, "pow") X(MATMUL, "matmul") \
  X(SCE, "sce") X(SCERAW, "sceraw") X(CONV, "conv") \
  X(CONCAT, "concat") X(BCONCAT, "bconcat") X(SUMN, "sumn") X(MEANN, "meann")
enum Op {
#define X(c, n) OP_##c,
  PROG_OPS(X)
#undef X
  OP_COUNT
};
static const char *const OP_NAMES[] = {
#define X(c, n) n,
  PROG_OPS(X)
#undef X
};
static inline int op_by_name(const string &s) {
  for (int i = 0; i < OP_COUNT; ++i) if (s == OP_NAMES[i]) return i;
  return -1;
}
static inline bool op_is_leaf(int c) { return c <= OP_RGUMBEL; }
static inline bool op_is_random(int c) { return c >= OP_RBERN && c <= OP_RGUMBEL; }
static inline bool op_is_batchfn(int c) {
  return c == OP_BSUM || c == OP_BMEAN || c == OP_BNORM || c == OP_BPICK || c == OP_BSLICE ||
         c == OP_BSPLIT || c == OP_BCONCAT;
}
// pure data movement / creation / selection: results must be bit-for-bit on every backend
// (negation and abs are NOT in this class: Eigen's packet negate yields +0 for -(+0))
static inline bool op_is_movement(int c) {
  switch (c) {
    case OP_PAR: case OP_IN: case OP_CONST: case OP_ZEROS: case OP_ONES: case OP_IDENT:
    case OP_POS: case OP_FLATTEN: case OP_TRANSPOSE: case OP_STOPGRAD: case OP_FLIP: case OP_BCAST:
    case OP_SLICE: case OP_PICK: case OP_SPLIT: case OP_PERMUTE: case OP_RESHAPE: case OP_COPY:
    case OP_BPICK: case OP_BSLICE: case OP_BSPLIT: case OP_CONCAT: case OP_BCONCAT:
    case OP_MAX: case OP_MIN: case OP_MAXPOOL:   // selection of one input element
      return true;
    default: return false;
  }
}
static inline bool op_is_kink(int c) {
  return c == OP_ABS || c == OP_RELU || c == OP_LRELU || c == OP_SELU || c == OP_PRELU || c == OP_ELU ||
         c == OP_SELU2 || c == OP_MAX || c == OP_MIN || c == OP_MAXPOOL;
}

// ------------------------------------------------------------------ instructions / programs
struct Instr {
  int code;
  vector<int> a;          // argument value ids
  vector<long long> n;    // integer attributes
  vector<float> f;        // float attributes
  Shp s; bool has_s;
  Instr() : code(0), has_s(false) {}
  explicit Instr(int c) : code(c), has_s(false) {}
  int nout() const {
    if (code == OP_SPLIT) return n.size() > 1 && n[1] > 0 && n[1] < 100000 ? (int)n[1] : 0;
    if (code == OP_BSPLIT) return n.size() > 0 && n[0] > 0 && n[0] < 100000 ? (int)n[0] : 0;
    return 1;
  }
};
struct Program {
  uint32_t B; int out; uint64_t w; int g0;
  vector<Instr> ins;
  Program() : B(1), out(-1), w(1), g0(0) {}
  int nvalues() const { int k = 0; for (auto &i : ins) k += i.nout(); return k; }
  // value id -> (instr index, output index)
  vector<std::pair<int, int>> value_map() const {
    vector<std::pair<int, int>> m;
    for (size_t i = 0; i < ins.size(); ++i) for (int j = 0; j < ins[i].nout(); ++j) m.push_back({(int)i, j});
    return m;
  }
};
static inline string fstr(float x) { char b[40]; snprintf(b, sizeof b, "%.9g", (double)x); return b; }
static inline string print_instr(const Instr &I) {
  std::ostringstream o; o << OP_NAMES[I.code];
  if (!I.a.empty()) { o << " a="; for (size_t i = 0; i < I.a.size(); ++i) { if (i) o << ','; o << I.a[i]; } }
  if (I.has_s) o << " s=" << I.s.str();
  if (!I.n.empty()) { o << " n="; for (size_t i = 0; i < I.n.size(); ++i) { if (i) o << ','; o << I.n[i]; } }
  if (!I.f.empty()) { o << " f="; for (size_t i = 0; i < I.f.size(); ++i) { if (i) o << ','; o << fstr(I.f[i]); } }
  return o.str();
}
static inline string print_program(const Program &p) {
  std::ostringstream o;
  o << "B=" << p.B << " out=" << p.out << " w=" << p.w << " g0=" << p.g0;
  for (auto &I : p.ins) o << " | " << print_instr(I);
  return o.str();
}
struct ParseError { string msg; };
static inline vector<string> splitc(const string &s, char c) {
  vector<string> out; string cur;
  for (char ch : s) { if (ch == c) { out.push_back(cur); cur.clear(); } else cur += ch; }
  out.push_back(cur); return out;
}
static inline Program parse_program(const string &line) {
  Program p;
  vector<string> parts = splitc(line, '|');
  for (size_t k = 0; k < parts.size(); ++k) {
    std::istringstream is(parts[k]); string t; vector<string> toks;
    while (is >> t) toks.push_back(t);
    if (k == 0) {
      for (auto &x : toks) {
        size_t e = x.find('='); if (e == string::npos) throw ParseError{"header token " + x};
        string key = x.substr(0, e), val = x.substr(e + 1);
        if (key == "B") p.B = (uint32_t)strtoul(val.c_str(), 0, 10);
        else if (key == "out") p.out = atoi(val.c_str());
        else if (key == "w") p.w = strtoull(val.c_str(), 0, 10);
        else if (key == "g0") p.g0 = atoi(val.c_str());
      }
      continue;
    }
    if (toks.empty()) continue;
    int c = op_by_name(toks[0]); if (c < 0) throw ParseError{"unknown op " + toks[0]};
    Instr I(c);
    for (size_t j = 1; j < toks.size(); ++j) {
      const string &x = toks[j];
      if (x.size() < 2 || x[1] != '=') throw ParseError{"bad token " + x};
      string val = x.substr(2);
      if (x[0] == 'a') { if (!val.empty()) for (auto &y : splitc(val, ',')) I.a.push_back(atoi(y.c_str())); }
      else if (x[0] == 'n') { if (!val.empty()) for (auto &y : splitc(val, ',')) I.n.push_back(strtoll(y.c_str(), 0, 10)); }
      else if (x[0] == 'f') { if (!val.empty()) for (auto &y : splitc(val, ',')) I.f.push_back(strtof(y.c_str(), 0)); }
      else if (x[0] == 's') {
        size_t sl = val.find('/'); if (sl == string::npos) throw ParseError{"bad shape " + val};
        string ds = val.substr(0, sl);
        if (!ds.empty()) for (auto &y : splitc(ds, ',')) I.s.d.push_back((uint32_t)strtoul(y.c_str(), 0, 10));
        I.s.b = (uint32_t)strtoul(val.substr(sl + 1).c_str(), 0, 10); I.has_s = true;
      } else throw ParseError{"bad token " + x};
    }
    p.ins.push_back(I);
  }
  int nv = 0;
  for (auto &I : p.ins) { for (int a : I.a) if (a < 0 || a >= nv) throw ParseError{"argument refers to a later value"}; nv += I.nout(); }
  if (p.out < 0 || p.out >= nv) p.out = nv - 1;
  return p;
}

// ------------------------------------------------------------------ devices / parameters
struct DevCtx {
  Device *dev[2];
  string map;   // "NN", "NE", "EN", "EE"
};
struct Devices {
  devices::Naive na, nb; devices::Eigen ea, eb;
  Devices() : na(11), nb(12), ea(11), eb(12) {}
  DevCtx ctx(const string &m) {
    DevCtx c; c.map = m;
    c.dev[0] = m[0] == 'E' ? (Device *)&ea : (Device *)&na;
    c.dev[1] = m[1] == 'E' ? (Device *)&eb : (Device *)&nb;
    return c;
  }
};
// When set, every leaf value is multiplied by (1 +- 2^-21): a rounding-level perturbation used by the
// backend oracle to measure how strongly a whole program amplifies rounding differences.
static int g_leaf_perturb = 0;
// leaf attribute layout: n = seed, dev, off, period[, extra]   f = lo, hi
static inline FV leaf_data(const Instr &I) {
  uint64_t seed = I.n.size() > 0 ? (uint64_t)I.n[0] : 0, off = I.n.size() > 2 ? (uint64_t)I.n[2] : 0;
  uint64_t per = I.n.size() > 3 ? (uint64_t)I.n[3] : 0;
  long long extra = I.n.size() > 4 ? I.n[4] : 0;
  float lo = I.f.size() > 0 ? I.f[0] : -1, hi = I.f.size() > 1 ? I.f[1] : 1;
  long long sz = (long long)I.s.size() + extra; if (sz < 0) sz = 0; if (sz > (1 << 22)) sz = 1 << 22;
  FV v((size_t)sz);
  for (size_t i = 0; i < v.size(); ++i) v[i] = leafval(seed, off + (per ? i % per : i), lo, hi);
  if (g_leaf_perturb) for (size_t i = 0; i < v.size(); ++i) v[i] *= (mix64(seed + 77 * i) & 1) ? 1.0f + 4.76837158203125e-07f : 1.0f - 4.76837158203125e-07f;
  return v;
}
struct ParamSet {
  std::map<int, std::unique_ptr<Parameter>> ps;
  Parameter &get(int idx, const Instr &I, DevCtx &dc) {
    auto it = ps.find(idx);
    if (it != ps.end()) return *it->second;
    int d = I.n.size() > 1 ? (int)(I.n[1] & 1) : 0;
    std::unique_ptr<Parameter> p(new Parameter(I.s.shape(), leaf_data(I), *dc.dev[d]));
    Parameter &r = *p; ps[idx] = std::move(p); return r;
  }
  vector<int> keys() const { vector<int> k; for (auto &e : ps) k.push_back(e.first); return k; }
};

// Var-specific bits
static inline Tensor mk_lognormal(Tensor *, const Shape &s, float m, float sd, Device *d) { return F::random::log_normal_tensor(s, m, sd, d); }
static inline Node mk_lognormal(Node *, const Shape &s, float m, float sd, Device *d) { return F::random::log_normal_node(s, m, sd, d, nullptr); }
static inline Tensor mk_gumbel(Tensor *, const Shape &s, float m, float b, Device *d) { return F::random::gumbel_tensor(s, m, b, d); }
static inline Node mk_gumbel(Node *, const Shape &s, float m, float b, Device *d) { return F::random::gumbel_node(s, m, b, d, nullptr); }

// ------------------------------------------------------------------ kink signatures (host side)
static inline void sig_sign(const FV &x, vector<int> &sig) { for (float v : x) sig.push_back(v > 0 ? 1 : (v < 0 ? -1 : 0)); }
// first index of the extremum along `dim` in every group
static inline void sig_ext(const Shape &s, const FV &x, uint32_t dim, bool ismax, vector<int> &sig) {
  const uint32_t n = s[dim]; const uint32_t skip1 = s.lower_volume(dim); const uint32_t rep = s.size() / n;
  for (uint32_t i = 0; i < rep; ++i) {
    uint32_t off = i % skip1 + (i / skip1) * skip1 * n; int best = 0; float bv = x[off];
    for (uint32_t j = 1; j < n; ++j) { float v = x[off + j * skip1]; if (ismax ? v > bv : v < bv) { bv = v; best = (int)j; } }
    sig.push_back(best);
  }
}
// margin: min over groups of |best - best of the values different from best| (structural ties allowed)
static inline float margin_ext(const Shape &s, const FV &x, uint32_t dim, bool ismax) {
  const uint32_t n = s[dim]; const uint32_t skip1 = s.lower_volume(dim); const uint32_t rep = s.size() / n;
  float m = 1e30f;
  for (uint32_t i = 0; i < rep; ++i) {
    uint32_t off = i % skip1 + (i / skip1) * skip1 * n; float bv = x[off];
    for (uint32_t j = 1; j < n; ++j) { float v = x[off + j * skip1]; if (ismax ? v > bv : v < bv) bv = v; }
    for (uint32_t j = 0; j < n; ++j) { float v = x[off + j * skip1]; if (v != bv) m = std::min(m, std::fabs(bv - v)); }
  }
  return m;
}
static inline void pool_scan(const Shape &s, const FV &x, const vector<long long> &n, vector<int> *sig, float *margin) {
  const uint32_t w0 = n[0], w1 = n[1], p0 = n[2], p1 = n[3], s0 = n[4], s1 = n[5];
  const uint32_t H = s[0], W = s[1]; const uint32_t rep = s.size() / (H * W);
  const uint32_t yh = (H + 2 * p0 - w0) / s0 + 1, yw = (W + 2 * p1 - w1) / s1 + 1;
  for (uint32_t r = 0; r < rep; ++r) for (uint32_t yx = 0; yx < yw; ++yx) for (uint32_t yy = 0; yy < yh; ++yy) {
    int best = -1; float bv = 0;
    for (uint32_t wx = 0; wx < w1; ++wx) { int xx = -(int)p1 + (int)(yx * s1 + wx); if (xx < 0 || xx >= (int)W) continue;
      for (uint32_t wy = 0; wy < w0; ++wy) { int xy = -(int)p0 + (int)(yy * s0 + wy); if (xy < 0 || xy >= (int)H) continue;
        float v = x[r * H * W + xx * H + xy]; if (best < 0 || v > bv) { bv = v; best = xx * H + xy; } } }
    if (sig) sig->push_back(best);
    if (margin) for (uint32_t wx = 0; wx < w1; ++wx) { int xx = -(int)p1 + (int)(yx * s1 + wx); if (xx < 0 || xx >= (int)W) continue;
      for (uint32_t wy = 0; wy < w0; ++wy) { int xy = -(int)p0 + (int)(yy * s0 + wy); if (xy < 0 || xy >= (int)H) continue;
        float v = x[r * H * W + xx * H + xy]; if (v != bv) *margin = std::min(*margin, std::fabs(bv - v)); } }
  }
}

struct BadProgram { string msg; };

// ------------------------------------------------------------------ the executor
template <class Var>
struct Exec {
  DevCtx &dc; ParamSet &ps;
  vector<Var> v;
  vector<int> *sig;          // when set: kink signature of this run is appended
  // stop_gradient is by definition NOT differentiated through: the finite-difference runs hold its
  // value at the base point.  freeze_rec: record the value of every stop_gradient; freeze_use: replay it.
  std::map<int, FV> *freeze_rec, *freeze_use;
  Exec(DevCtx &d, ParamSet &p) : dc(d), ps(p), sig(nullptr), freeze_rec(nullptr), freeze_use(nullptr) {}
  Device *D(long long id) { return dc.dev[id & 1]; }
  const Var &A(const Instr &I, size_t k) {
    if (k >= I.a.size()) throw BadProgram{"missing argument"};
    int id = I.a[k]; if (id < 0 || id >= (int)v.size()) throw BadProgram{"bad value id"};
    return v[id];
  }
  static uint32_t N(const Instr &I, size_t k) { if (k >= I.n.size()) throw BadProgram{"missing n attr"}; return (uint32_t)I.n[k]; }
  static float Fl(const Instr &I, size_t k) { if (k >= I.f.size()) throw BadProgram{"missing f attr"}; return I.f[k]; }
  static vector<uint32_t> Ns(const Instr &I, size_t from) { vector<uint32_t> r; for (size_t k = from; k < I.n.size(); ++k) r.push_back((uint32_t)I.n[k]); return r; }
  vector<Var> As(const Instr &I) { vector<Var> r; for (size_t k = 0; k < I.a.size(); ++k) r.push_back(A(I, k)); return r; }

  void run_all(const Program &p) { for (size_t i = 0; i < p.ins.size(); ++i) run(p.ins[i], (int)i); }

  void run(const Instr &I, int idx) {
    Var *tag = nullptr;
    if (sig && op_is_kink(I.code)) {
      const Var &x = A(I, 0); FV h = x.to_vector();
      if (I.code == OP_MAX || I.code == OP_MIN) sig_ext(x.shape(), h, N(I, 0), I.code == OP_MAX, *sig);
      else if (I.code == OP_MAXPOOL) { if (I.n.size() < 6) throw BadProgram{"maxpool attrs"}; pool_scan(x.shape(), h, I.n, sig, nullptr); }
      else sig_sign(h, *sig);
    }
    switch (I.code) {
      case OP_PAR: v.push_back(F::parameter<Var>(ps.get(idx, I, dc))); break;
      case OP_IN: v.push_back(F::input<Var>(I.s.shape(), leaf_data(I), D(N(I, 1)))); break;
      case OP_CONST: v.push_back(F::constant<Var>(I.s.shape(), Fl(I, 0), D(N(I, 0)))); break;
      case OP_ZEROS: v.push_back(F::zeros<Var>(I.s.shape(), D(N(I, 0)))); break;
      case OP_ONES: v.push_back(F::ones<Var>(I.s.shape(), D(N(I, 0)))); break;
      case OP_IDENT: v.push_back(F::identity<Var>(N(I, 0), D(N(I, 1)))); break;
      case OP_RBERN: v.push_back(F::random::bernoulli<Var>(I.s.shape(), Fl(I, 0), D(N(I, 0)))); break;
      case OP_RUNIF: v.push_back(F::random::uniform<Var>(I.s.shape(), Fl(I, 0), Fl(I, 1), D(N(I, 0)))); break;
      case OP_RNORM: v.push_back(F::random::normal<Var>(I.s.shape(), Fl(I, 0), Fl(I, 1), D(N(I, 0)))); break;
      case OP_RLNORM: v.push_back(mk_lognormal(tag, I.s.shape(), Fl(I, 0), Fl(I, 1), D(N(I, 0)))); break;
      case OP_RGUMBEL: v.push_back(mk_gumbel(tag, I.s.shape(), Fl(I, 0), Fl(I, 1), D(N(I, 0)))); break;
      case OP_POS: v.push_back(F::positive(A(I, 0))); break;
      case OP_NEG: v.push_back(F::negative(A(I, 0))); break;
      case OP_ABS: v.push_back(F::abs(A(I, 0))); break;
      case OP_SQRT: v.push_back(F::sqrt(A(I, 0))); break;
      case OP_EXP: v.push_back(F::exp(A(I, 0))); break;
      case OP_LOG: v.push_back(F::log(A(I, 0))); break;
      case OP_TANH: v.push_back(F::tanh(A(I, 0))); break;
      case OP_SIGMOID: v.push_back(F::sigmoid(A(I, 0))); break;
      case OP_SOFTPLUS: v.push_back(F::softplus(A(I, 0))); break;
      case OP_SIN: v.push_back(F::sin(A(I, 0))); break;
      case OP_COS: v.push_back(F::cos(A(I, 0))); break;
      case OP_TAN: v.push_back(F::tan(A(I, 0))); break;
      case OP_RELU: v.push_back(F::relu(A(I, 0))); break;
      case OP_LRELU: v.push_back(F::lrelu(A(I, 0))); break;
      case OP_SELU: v.push_back(F::selu(A(I, 0))); break;
      case OP_FLATTEN: v.push_back(F::flatten(A(I, 0))); break;
      case OP_TRANSPOSE: v.push_back(F::transpose(A(I, 0))); break;
      case OP_STOPGRAD: {
        const Var &x = A(I, 0);
        if (freeze_rec) (*freeze_rec)[idx] = x.to_vector();
        if (freeze_use && freeze_use->count(idx)) v.push_back(F::input<Var>(x.shape(), (*freeze_use)[idx], &x.device()));
        else v.push_back(F::stop_gradient(x));
        break; }
      case OP_BSUM: v.push_back(F::batch::sum(A(I, 0))); break;
      case OP_BMEAN: v.push_back(F::batch::mean(A(I, 0))); break;
      case OP_BNORM: v.push_back(F::batch::normalize(A(I, 0))); break;
      case OP_ADDK: v.push_back(F::add(A(I, 0), Fl(I, 0))); break;
      case OP_KADD: v.push_back(F::add(Fl(I, 0), A(I, 0))); break;
      case OP_SUBK: v.push_back(F::subtract(A(I, 0), Fl(I, 0))); break;
      case OP_KSUB: v.push_back(F::subtract(Fl(I, 0), A(I, 0))); break;
      case OP_MULK: v.push_back(F::multiply(A(I, 0), Fl(I, 0))); break;
      case OP_KMUL: v.push_back(F::multiply(Fl(I, 0), A(I, 0))); break;
      case OP_DIVK: v.push_back(F::divide(A(I, 0), Fl(I, 0))); break;
      case OP_KDIV: v.push_back(F::divide(Fl(I, 0), A(I, 0))); break;
      case OP_POWK: v.push_back(F::pow(A(I, 0), Fl(I, 0))); break;
      case OP_KPOW: v.push_back(F::pow(Fl(I, 0), A(I, 0))); break;
      case OP_PRELU: v.push_back(F::prelu(A(I, 0), Fl(I, 0))); break;
      case OP_ELU: v.push_back(F::elu(A(I, 0), Fl(I, 0))); break;
      case OP_SELU2: v.push_back(F::selu(A(I, 0), Fl(I, 0), Fl(I, 1))); break;
      case OP_DROPOUT: v.push_back(F::dropout(A(I, 0), Fl(I, 0), N(I, 0) != 0)); break;
      case OP_POWN: { if (I.n.empty()) throw BadProgram{"pown"}; v.push_back(F::pown(A(I, 0), (std::int32_t)I.n[0])); break; }
      case OP_FLIP: v.push_back(F::flip(A(I, 0), N(I, 0))); break;
      case OP_SUM: v.push_back(F::sum(A(I, 0), N(I, 0))); break;
      case OP_MEAN: v.push_back(F::mean(A(I, 0), N(I, 0))); break;
      case OP_MAX: v.push_back(F::max(A(I, 0), N(I, 0))); break;
      case OP_MIN: v.push_back(F::min(A(I, 0), N(I, 0))); break;
      case OP_LSE: v.push_back(F::logsumexp(A(I, 0), N(I, 0))); break;
      case OP_LSM: v.push_back(F::log_softmax(A(I, 0), N(I, 0))); break;
      case OP_SOFTMAX: v.push_back(F::softmax(A(I, 0), N(I, 0))); break;
      case OP_BCAST: v.push_back(F::broadcast(A(I, 0), N(I, 0), N(I, 1))); break;
      case OP_SLICE: v.push_back(F::slice(A(I, 0), N(I, 0), N(I, 1), N(I, 2))); break;
      case OP_PICK: v.push_back(F::pick(A(I, 0), Ns(I, 1), N(I, 0))); break;
      case OP_SPLIT: {
        vector<Var> r = F::split(A(I, 0), N(I, 0), N(I, 1));
        if ((int)r.size() != I.nout()) throw BadProgram{"split returned an unexpected number of values"};
        for (auto &x : r) v.push_back(x); break; }
      case OP_PERMUTE: v.push_back(F::permute_dims(A(I, 0), Ns(I, 0))); break;
      case OP_RESHAPE: v.push_back(F::reshape(A(I, 0), I.s.shape())); break;
      case OP_COPY: v.push_back(F::copy(A(I, 0), D(N(I, 0)))); break;
      case OP_SSCE: v.push_back(F::softmax_cross_entropy(A(I, 0), Ns(I, 1), N(I, 0))); break;
      case OP_MAXPOOL: v.push_back(F::max_pool2d(A(I, 0), N(I, 0), N(I, 1), N(I, 2), N(I, 3), N(I, 4), N(I, 5))); break;
      case OP_BPICK: v.push_back(F::batch::pick(A(I, 0), Ns(I, 0))); break;
      case OP_BSLICE: v.push_back(F::batch::slice(A(I, 0), N(I, 0), N(I, 1))); break;
      case OP_BSPLIT: {
        vector<Var> r = F::batch::split(A(I, 0), N(I, 0));
        if ((int)r.size() != I.nout()) throw BadProgram{"batch::split returned an unexpected number of values"};
        for (auto &x : r) v.push_back(x); break; }
      case OP_ADD: v.push_back(F::add(A(I, 0), A(I, 1))); break;
      case OP_SUB: v.push_back(F::subtract(A(I, 0), A(I, 1))); break;
      case OP_MUL: v.push_back(F::multiply(A(I, 0), A(I, 1))); break;
      case OP_DIV: v.push_back(F::divide(A(I, 0), A(I, 1))); break;
      case OP_POW: v.push_back(F::pow(A(I, 0), A(I, 1))); break;
      case OP_MATMUL: v.push_back(F::matmul(A(I, 0), A(I, 1))); break;
      case OP_SCE: {   // dense targets normalised along the axis (the backward rule assumes sum t = 1)
        const Var &x = A(I, 0); const Var &t = A(I, 1); uint32_t d = N(I, 0);
        Var tn = F::divide(t, F::broadcast(F::sum(t, d), d, t.shape()[d]));
        v.push_back(F::softmax_cross_entropy(x, tn, d)); break; }
      case OP_SCERAW: v.push_back(F::softmax_cross_entropy(A(I, 0), A(I, 1), N(I, 0))); break;
      case OP_CONV: v.push_back(F::conv2d(A(I, 0), A(I, 1), N(I, 0), N(I, 1), N(I, 2), N(I, 3), N(I, 4), N(I, 5))); break;
      case OP_CONCAT: v.push_back(F::concat(As(I), N(I, 0))); break;
      case OP_BCONCAT: v.push_back(F::batch::concat(As(I))); break;
      case OP_SUMN: v.push_back(F::sum(As(I))); break;
      case OP_MEANN: v.push_back(F::mean(As(I))); break;
      default: throw BadProgram{"unknown opcode"};
    }
  }
};

static inline uint32_t bits(float f) { uint32_t u; std::memcpy(&u, &f, 4); return u; }
static inline bool all_finite(const FV &v) { for (float x : v) if (!std::isfinite(x)) return false; return true; }
static inline float maxabs(const FV &v) { float m = 0; for (float x : v) m = std::max(m, std::fabs(x)); return m; }

}  // namespace prog
#endif
