// D18 regression probe: a valid 2^30-element tensor must be backed by 4 GiB.
#include <primitiv/primitiv.h>
#include <iostream>
using namespace primitiv;
int main() {
  devices::Naive dev; Device::set_default(dev);
  try {
    Tensor t = functions::zeros<Tensor>(Shape({1u << 30}), dev);
    t.reset(1.0f);
    std::cout << "ok size=" << t.shape().size() << "\n";
  } catch (Error &e) { std::cout << "ok Error (allocation refused)\n"; }
  return 0;
}
