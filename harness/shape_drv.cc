// Runs the real Shape / shape_ops / FWD_SHAPE code on the case file read from stdin.
// Same cases and output format as ocaml/shape_driver.ml.
#include <primitiv/primitiv.h>
#include <primitiv/core/shape_ops.h>
#include <primitiv/core/operator_impl.h>
#include "pvh.h"
using namespace primitiv;
using namespace pvh;
struct Argerr {};
static Shape sh(const std::string &s) {
  auto p = s.find(':');
  try { return Shape(u32list(s.substr(0, p)), u32(s.substr(p + 1))); }
  catch (Error &) { throw Argerr(); }
}
static std::vector<Shape> shs(const std::string &s) {
  std::vector<Shape> out; for (auto &t : split(s, ';')) out.push_back(sh(t)); return out;
}
static std::string pr(const Shape &s) {
  std::ostringstream o; o << "ok ";
  auto d = s.dims();
  for (size_t i = 0; i < d.size(); ++i) { if (i) o << ','; o << d[i]; }
  o << ':' << s.batch() << " v=" << s.volume();
  return o.str();
}
static std::string prb(bool b) { return b ? "b 1" : "b 0"; }
static std::string prn(std::uint64_t n) { return "n " + std::to_string(n); }
static std::string fwd1(const Operator &op, const std::vector<Shape> &xs, unsigned nret) {
  std::vector<const Shape *> xp; for (auto &x : xs) xp.push_back(&x);
  std::vector<Shape> ys(nret); std::vector<Shape *> yp; for (auto &y : ys) yp.push_back(&y);
  op.forward_shape(xp, yp);
  for (unsigned i = 1; i < nret; ++i) if (ys[i] != ys[0]) return "ok-mismatched-outputs";
  return pr(ys[0]);
}
static std::string eval(const std::vector<std::string> &t) {
  const std::string &f = t.at(0);
  auto n = t.size();
  if (f == "mk" && n == 3) return pr(Shape(u32list(t[1]), u32(t[2])));
  if (f == "get" && n == 3) return prn(sh(t[1])[u32(t[2])]);
  if (f == "depth") return prn(sh(t[1]).depth());
  if (f == "volume") return prn(sh(t[1]).volume());
  if (f == "lower_volume") return prn(sh(t[1]).lower_volume(u32(t[2])));
  if (f == "size") return prn(sh(t[1]).size());
  if (f == "has_batch") return prb(sh(t[1]).has_batch());
  if (f == "compat") return prb(sh(t[1]).has_compatible_batch(sh(t[2])));
  if (f == "is_scalar") return prb(sh(t[1]).is_scalar());
  if (f == "is_column_vector") return prb(sh(t[1]).is_column_vector());
  if (f == "is_matrix") return prb(sh(t[1]).is_matrix());
  if (f == "same_dims") return prb(sh(t[1]).has_same_dims(sh(t[2])));
  if (f == "eq") { Shape a = sh(t[1]), b = sh(t[2]); bool e = a == b; if ((a != b) == e) return "eq-ne-inconsistent"; return prb(e); }
  if (f == "loo") return prb(sh(t[1]).has_same_loo_dims(sh(t[2]), u32(t[3])));
  if (f == "resize_dim") {
    Shape a = sh(t[1]); Shape b = a;
    try { std::string r = pr(a.resize_dim(u32(t[2]), u32(t[3]))); b.update_dim(u32(t[2]), u32(t[3])); if (pr(b) != r) return "resize-update-differ"; return r; }
    catch (Error &) { try { b.update_dim(u32(t[2]), u32(t[3])); return "update-ok-resize-err"; } catch (Error &) {} if (b != a || b.volume() != a.volume()) return "err-but-mutated"; throw; }
  }
  if (f == "resize_batch") {
    Shape a = sh(t[1]); Shape b = a;
    try { std::string r = pr(a.resize_batch(u32(t[2]))); b.update_batch(u32(t[2])); if (pr(b) != r) return "resize-update-differ"; return r; }
    catch (Error &) { try { b.update_batch(u32(t[2])); return "update-ok-resize-err"; } catch (Error &) {} if (b != a || b.volume() != a.volume()) return "err-but-mutated"; throw; }
  }
  if (f == "reshape") return pr(shape_ops::reshape(sh(t[1]), sh(t[2])));
  if (f == "flatten") return pr(shape_ops::flatten(sh(t[1])));
  if (f == "scalar_op") return pr(shape_ops::scalar_op(sh(t[1]), sh(t[2])));
  if (f == "elementwise") return pr(shape_ops::elementwise(sh(t[1]), sh(t[2])));
  if (f == "slice") return pr(shape_ops::slice(sh(t[1]), u32(t[2]), u32(t[3]), u32(t[4])));
  if (f == "concat") return pr(shape_ops::concat(shs(t[1]), u32(t[2])));
  if (f == "broadcast") return pr(shape_ops::broadcast(sh(t[1]), u32(t[2]), u32(t[3])));
  if (f == "pick") return pr(shape_ops::pick(sh(t[1]), u32list(t[2]), u32(t[3])));
  if (f == "transpose") return pr(shape_ops::transpose(sh(t[1])));
  if (f == "permute_dims") return pr(shape_ops::permute_dims(sh(t[1]), u32list(t[2])));
  if (f == "matmul") return pr(shape_ops::matmul(sh(t[1]), sh(t[2])));
  if (f == "conv2d") return pr(shape_ops::conv2d(sh(t[1]), sh(t[2]), u32(t[3]), u32(t[4]), u32(t[5]), u32(t[6]), u32(t[7]), u32(t[8])));
  if (f == "pool2d") return pr(shape_ops::pool2d(sh(t[1]), u32(t[2]), u32(t[3]), u32(t[4]), u32(t[5]), u32(t[6]), u32(t[7])));
  if (f == "batch_pick") return pr(shape_ops::batch_pick(sh(t[1]), u32list(t[2])));
  if (f == "batch_slice") return pr(shape_ops::batch_slice(sh(t[1]), u32(t[2]), u32(t[3])));
  if (f == "batch_concat") return pr(shape_ops::batch_concat(shs(t[1])));
  if (f == "split") { std::uint32_t k = u32(t[3]); return fwd1(operators::Split(u32(t[2]), k), {sh(t[1])}, k > (1u << 20) ? (1u << 20) : (k == 0 ? 1 : k)); }
  if (f == "batch_split") { std::uint32_t k = u32(t[2]); return fwd1(operators::BatchSplit(k), {sh(t[1])}, k > (1u << 20) ? (1u << 20) : (k == 0 ? 1 : k)); }
  if (f == "sce") return fwd1(operators::SoftmaxCrossEntropy(u32(t[3])), {sh(t[1]), sh(t[2])}, 1);
  if (f == "reduce") {
    std::uint32_t d = u32(t[2]); Shape x = sh(t[1]);
    std::string r[4]; 
    auto run = [&](const Operator &op) -> std::string { try { return fwd1(op, {x}, 1); } catch (Error &) { return "err"; } };
    r[0] = run(operators::Sum(d)); r[1] = run(operators::Max(d)); r[2] = run(operators::Min(d)); r[3] = run(operators::LogSumExp(d));
    for (int i = 1; i < 4; ++i) if (r[i] != r[0]) return "reduce-rules-differ";
    return r[0];
  }
  if (f == "identity") { static devices::Naive dev; return fwd1(operators::Identity(u32(t[1]), dev), {}, 1); }
  if (f == "batch_sum") return fwd1(operators::BatchSum(), {sh(t[1])}, 1);
  return "badcase";
}
int main() {
  std::string line;
  while (std::getline(std::cin, line)) {
    auto t = tokens(line);
    std::string out;
    try { out = eval(t); }
    catch (Argerr &) { out = "argerr"; }
    catch (Error &) { out = "err"; }
    catch (std::exception &e) { out = std::string("other-exception ") + e.what(); }
    std::cout << out << "\n";
  }
  return 0;
}
