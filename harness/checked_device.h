// Allocator-overriding devices for C10/C11: guard words around every block, poisoned payload,
// live-handle counter, failure injection at the k-th allocation.
#ifndef PV_CHECKED_DEVICE_H_
#define PV_CHECKED_DEVICE_H_
#include <primitiv/primitiv.h>
#include <cstdlib>
#include <cstring>
#include <cstdint>
namespace pvh {
struct MemStats {
  long live = 0;            // blocks currently alive
  long total = 0;           // allocations so far
  long guard_damage = 0;    // blocks whose guard words were overwritten (checked at free)
  long fail_at = -1;        // throw at allocation number fail_at (0-based), -1 = never
  long freed = 0;
};
inline MemStats &mem() { static MemStats m; return m; }
static const std::uint32_t POISON = 0x7fc0beefu;   // a quiet NaN with a recognisable payload
static const std::uint64_t GUARD = 0xa5a5c3c3deadf00dull;
static const std::size_t NGUARD = 8;               // 64 bytes on each side
inline std::shared_ptr<void> checked_alloc(const primitiv::Shape &shape, std::size_t *allocated_size) {
  MemStats &m = mem();
  if (m.fail_at >= 0 && m.total == m.fail_at) {
    ++m.total;
    PRIMITIV_THROW_ERROR("Memory allocation failed (injected). Requested size: " << shape.size());
  }
  ++m.total;
  const std::size_t bytes = sizeof(float) * static_cast<std::size_t>(shape.size());
  char *raw = static_cast<char *>(std::malloc(bytes + 2 * NGUARD * 8 + 16));
  if (!raw) PRIMITIV_THROW_ERROR("Memory allocation failed.");
  std::memcpy(raw, &bytes, sizeof(bytes));
  std::uint64_t *g1 = reinterpret_cast<std::uint64_t *>(raw + 16);
  for (std::size_t i = 0; i < NGUARD; ++i) g1[i] = GUARD;
  char *payload = raw + 16 + NGUARD * 8;
  std::uint32_t *p = reinterpret_cast<std::uint32_t *>(payload);
  for (std::size_t i = 0; i < bytes / 4; ++i) p[i] = POISON;
  std::uint64_t *g2 = reinterpret_cast<std::uint64_t *>(payload + bytes);
  for (std::size_t i = 0; i < NGUARD; ++i) std::memcpy(reinterpret_cast<char *>(g2) + 8 * i, &GUARD, 8);
  if (allocated_size) *allocated_size = bytes;
  ++m.live;
  return std::shared_ptr<void>(payload, [](void *q) {
    MemStats &mm = mem();
    char *pl = static_cast<char *>(q);
    char *rw = pl - 16 - NGUARD * 8;
    std::size_t b; std::memcpy(&b, rw, sizeof(b));
    bool bad = false;
    for (std::size_t i = 0; i < NGUARD; ++i) {
      std::uint64_t a, c;
      std::memcpy(&a, rw + 16 + 8 * i, 8); std::memcpy(&c, pl + b + 8 * i, 8);
      if (a != GUARD || c != GUARD) bad = true;
    }
    if (bad) ++mm.guard_damage;
    --mm.live; ++mm.freed;
    std::free(rw);
  });
}
inline bool has_poison(const primitiv::Tensor &t) {
  std::vector<float> v = t.to_vector();
  for (float f : v) { std::uint32_t u; std::memcpy(&u, &f, 4); if (u == POISON) return true; }
  return false;
}
class CheckedNaive : public primitiv::devices::Naive {
public:
  CheckedNaive() : primitiv::devices::Naive(12345u) {}
  explicit CheckedNaive(std::uint32_t seed) : primitiv::devices::Naive(seed) {}
private:
  std::shared_ptr<void> new_handle(const primitiv::Shape &shape, std::size_t *const allocated_size) override {
    return checked_alloc(shape, allocated_size);
  }
};
class CheckedEigen : public primitiv::devices::Eigen {
public:
  CheckedEigen() : primitiv::devices::Eigen(12345u) {}
private:
  std::shared_ptr<void> new_handle(const primitiv::Shape &shape, std::size_t *const allocated_size) override {
    return checked_alloc(shape, allocated_size);
  }
};
}  // namespace pvh
#endif
