// C10 harness: (1) allocation failure injected at every k-th allocation while tensors /
// parameters are constructed and node values are computed; (2) invalid objects, foreign graphs,
// foreign devices, out-of-range arguments on object-level entry points, with observable
// snapshots before/after. One line per check: `ok <what>` or `FAIL <what> :: <detail>`.
// usage: fault_drv <seed> <n_programs>   |   fault_drv random <n_seeds>  (see random_mode)
#include <primitiv/primitiv.h>
#include <cstring>
#include <functional>
#include <iostream>
#include <memory>
#include <random>
#include <sstream>
#include <stdexcept>
#include "checked_device.h"
using namespace primitiv;
namespace F = primitiv::functions;
typedef std::vector<float> V;
static int fails = 0, oks = 0;
static void ok(const std::string &w) { ++oks; (void)w; }
static void fail(const std::string &w, const std::string &d) { ++fails; std::cout << "FAIL " << w << " :: " << d << "\n"; }
static bool same(const V &a, const V &b) { return a.size() == b.size() && (a.empty() || std::memcmp(a.data(), b.data(), a.size() * 4) == 0); }
template <class Fn> static std::string outcome(Fn f) {
  try { f(); return "ok"; }
  catch (Error &) { return "Error"; }
  catch (std::exception &e) { return std::string("other-exception:") + e.what(); }
}
#define EXPECT_ERROR(what, expr) { std::string r_ = outcome([&]() { expr; }); if (r_ == "Error") ok(what); else fail(what, "expected primitiv::Error, got " + r_); }

// ---- a small deterministic program family, indexed by (seed) ----
struct Prog {
  unsigned kind; std::uint32_t a, b, bs;
  std::string str() const { std::ostringstream o; o << "prog kind=" << kind << " a=" << a << " b=" << b << " bs=" << bs; return o.str(); }
};
// builds the program in graph g; returns the nodes whose values are observed (last = target)
static std::vector<Node> build(const Prog &p, Parameter &w1, Parameter &w2, Device &dev) {
  std::vector<Node> obs;
  V xin(p.a * p.bs); for (size_t i = 0; i < xin.size(); ++i) xin[i] = (float)((int)(i * 7 % 11) - 5) * 0.25f;
  Node x = F::input<Node>(Shape({p.a}, p.bs), xin, dev);
  Node W1 = F::parameter<Node>(w1), W2 = F::parameter<Node>(w2);
  Node h = F::matmul(W1, x);                       // [b] x bs
  obs.push_back(h);
  switch (p.kind % 7) {
    case 0: { Node t = F::tanh(h + 1.0f); obs.push_back(t); Node y = F::matmul(W2, t); obs.push_back(y); obs.push_back(F::softmax(y, 0)); break; }
    case 1: { std::vector<Node> parts = F::split(F::concat({h, h}, 0), 0, 2); obs.push_back(parts[1]); obs.push_back(F::sum(parts[0] * parts[1], 0)); break; }
    case 2: { Node y = F::log_softmax(F::matmul(W2, F::relu(h)), 0); obs.push_back(y); obs.push_back(F::batch::sum(y)); break; }
    case 3: { Node y = F::slice(h, 0, 0, 1) * F::pick(h, {0}, 0); obs.push_back(y); obs.push_back(F::broadcast(y, 1, 3)); break; }
    case 4: { Node y = F::softmax_cross_entropy(F::matmul(W2, h), std::vector<std::uint32_t>(p.bs, 0u), 0); obs.push_back(y); obs.push_back(F::batch::mean(y)); break; }
    case 6: { std::vector<Node> parts = F::split(F::concat({h, h, h}, 0), 0, 3); obs.push_back(parts[2]); obs.push_back(F::sum(F::tanh(parts[0]), 0)); break; }
    default: { Node y = F::transpose(F::reshape(h, Shape({1, p.b}, p.bs))); obs.push_back(y); obs.push_back(F::flip(y, 0) - y); break; }
  }
  return obs;
}

static void alloc_failure_program(const Prog &p) {
  pvh::MemStats &m = pvh::mem();
  pvh::CheckedNaive dev(7u);
  Device::set_default(dev);
  V w1v(p.a * p.b), w2v(p.b * p.b);
  for (size_t i = 0; i < w1v.size(); ++i) w1v[i] = (float)((int)(i * 5 % 7) - 3) * 0.125f;
  for (size_t i = 0; i < w2v.size(); ++i) w2v[i] = (float)((int)(i * 3 % 5) - 2) * 0.5f;
  Parameter w1(Shape({p.b, p.a}), w1v, dev), w2(Shape({p.b, p.b}), w2v, dev);
  // reference run
  std::vector<V> ref;
  long nalloc;
  {
    Graph g; Graph::set_default(g);
    std::vector<Node> obs = build(p, w1, w2, dev);
    long before = m.total;
    for (Node &n : obs) ref.push_back(n.to_vector());
    nalloc = m.total - before;
    // C11: backward() releases every intermediate gradient as it goes - after it returns the
    // number of live buffers is what it was after the forward pass (parameter gradients are
    // allocated with the parameters), also for multi-output operators with unused outputs
    const long live_fw = m.live;
    std::string rb = outcome([&]() { obs.back().backward(); });
    if (rb != "ok") fail(p.str(), "backward: " + rb);
    else if (m.live != live_fw) fail(p.str(), "backward left " + std::to_string(m.live - live_fw) + " gradient buffer(s) alive (live " + std::to_string(live_fw) + " -> " + std::to_string(m.live) + ")");
    else ok(p.str() + " backward releases gradients");
    // a second pass must behave the same
    rb = outcome([&]() { obs.back().backward(); });
    if (rb != "ok" || m.live != live_fw) fail(p.str(), "second backward: " + rb + " live " + std::to_string(m.live));
    w1.reset_gradient(); w2.reset_gradient();
  }
  if (m.live != 4) fail(p.str(), "after the graph is destroyed " + std::to_string(m.live) + " buffers are alive (expected the 4 parameter buffers)");
  for (long k = 0; k < nalloc; ++k) {
    Graph g; Graph::set_default(g);
    std::vector<Node> obs = build(p, w1, w2, dev);
    const std::uint32_t nops = g.num_operators();
    m.fail_at = m.total + k;
    std::string r = outcome([&]() { obs.back().to_vector(); });
    m.fail_at = -1;
    if (r != "Error" && r != "ok") { fail(p.str(), "alloc failure k=" + std::to_string(k) + " surfaced as " + r); continue; }
    if (g.num_operators() != nops) fail(p.str(), "operator count changed by a failed evaluation, k=" + std::to_string(k));
    // request everything again: must equal the never-failing run, bit for bit
    bool good = true;
    for (size_t i = 0; i < obs.size(); ++i) {
      V v; std::string r2 = outcome([&]() { v = obs[i].to_vector(); });
      if (r2 != "ok" || !same(v, ref[i])) { good = false; fail(p.str(), "after failure at allocation k=" + std::to_string(k) + " node " + std::to_string(i) + " differs from the never-failing run (" + r2 + ")"); break; }
    }
    if (good) ok(p.str());
    if (!same(w1.value().to_vector(), w1v) || !same(w2.value().to_vector(), w2v)) fail(p.str(), "parameter value changed by a failed evaluation");
  }
  if (m.guard_damage) { fail(p.str(), "guard damage"); m.guard_damage = 0; }
}

static void alloc_failure_objects() {
  pvh::MemStats &m = pvh::mem();
  pvh::CheckedNaive dev(7u);
  Device::set_default(dev);
  V v6 = {1, 2, 3, 4, 5, 6};
  for (long k = 0; k < 4; ++k) {
    long live0 = m.live;
    m.fail_at = m.total + k;
    std::string r = outcome([&]() { Parameter p(Shape({2, 3}), v6, dev); });
    m.fail_at = -1;
    if (r != "Error" && r != "ok") fail("Parameter ctor alloc failure", r);
    if (m.live != live0) fail("Parameter ctor alloc failure", "leak: live " + std::to_string(m.live) + " vs " + std::to_string(live0)); else ok("param ctor");
  }
  // init() on an existing parameter: build-then-commit, a failure leaves it untouched
  for (long k = 0; k < 4; ++k) {
    Parameter p(Shape({2, 3}), v6, dev);
    p.gradient() += dev.new_tensor_by_constant(Shape({2, 3}), 2.0f);
    V val0 = p.value().to_vector(), g0 = p.gradient().to_vector();
    m.fail_at = m.total + k;
    std::string r = outcome([&]() { p.init(Shape({3, 2}), V{9, 8, 7, 6, 5, 4}, dev); });
    m.fail_at = -1;
    if (r == "Error") {
      if (p.shape() != Shape({2, 3}) || !same(p.value().to_vector(), val0) || !same(p.gradient().to_vector(), g0)) fail("Parameter::init alloc failure k=" + std::to_string(k), "parameter partially replaced");
      else ok("param init");
    } else if (r == "ok") {
      if (p.shape() != Shape({3, 2})) fail("Parameter::init", "shape not replaced"); else ok("param init");
    } else fail("Parameter::init alloc failure", r);
  }
  // tensor construction
  for (long k = 0; k < 2; ++k) {
    long live0 = m.live;
    m.fail_at = m.total + k;
    std::string r = outcome([&]() { Tensor t = dev.new_tensor_by_vector(Shape({2, 3}), v6); Tensor u = t + t; });
    m.fail_at = -1;
    if (r != "Error" && r != "ok") fail("tensor ctor alloc failure", r);
    if (m.live != live0) fail("tensor ctor alloc failure", "leak"); else ok("tensor ctor");
  }
}

// ---- full observable state of a Parameter (shape, value, gradient, named statistics) ----
struct PSnap {
  bool valid; Shape shape; V value, grad; std::vector<std::pair<std::string, std::pair<Shape, V>>> stats;
};
static PSnap psnap(Parameter &p, const std::vector<std::string> &names) {
  PSnap s; s.valid = p.valid();
  if (!s.valid) return s;
  s.shape = p.shape(); s.value = p.value().to_vector(); s.grad = p.gradient().to_vector();
  for (const std::string &n : names) {
    if (!p.has_stats(n)) { s.stats.push_back({n + ":absent", {Shape(), V()}}); continue; }
    s.stats.push_back({n, {p.stats(n).shape(), p.stats(n).to_vector()}});
  }
  return s;
}
static std::string pdiff(const PSnap &a, const PSnap &b) {
  if (a.valid != b.valid) return "validity changed";
  if (!a.valid) return "";
  if (a.shape != b.shape) return "shape changed";
  if (!same(a.value, b.value)) return "value changed";
  if (!same(a.grad, b.grad)) return "gradient changed";
  for (size_t i = 0; i < a.stats.size(); ++i) {
    if (a.stats[i].first != b.stats[i].first) return "statistics `" + a.stats[i].first + "` -> `" + b.stats[i].first + "`";
    if (a.stats[i].second.first != b.stats[i].second.first || !same(a.stats[i].second.second, b.stats[i].second.second)) return "statistics `" + a.stats[i].first + "` changed";
  }
  return "";
}
// a call that must be rejected with Error and must leave the parameter exactly as it was
#define EXPECT_REJECTED_UNCHANGED(what, par, names, expr) { PSnap b_ = psnap(par, names); std::string r_ = outcome([&]() { expr; }); \
  if (r_ != "Error") fail(what, "expected primitiv::Error, got " + r_); else { std::string d_ = pdiff(b_, psnap(par, names)); if (d_ != "") fail(what, "rejected call changed the parameter: " + d_); else ok(what); } }

static void parameter_with_stats() {
  devices::Naive dev(3u);
  Device::set_default(dev);
  V v6 = {1, 2, 3, 4, 5, 6};
  const std::vector<std::string> names = {"s", "m", "b", "absent"};
  Parameter p(Shape({2, 3}), v6, dev);
  p.gradient() += dev.new_tensor_by_vector(Shape({2, 3}), V{-1, 0.5f, 2, -0.0f, 7, 9});
  p.add_stats("s", Shape({2})); p.stats("s").reset_by_vector(V{3, -4});
  p.add_stats("m", Shape({2, 3})); p.stats("m").reset_by_vector(V{6, 5, 4, 3, 2, 1});
  p.add_stats("b", Shape({2}, 2)); p.stats("b").reset_by_vector(V{1, 2, 3, 4});
  EXPECT_REJECTED_UNCHANGED("init(values): size mismatch, parameter with statistics", p, names, p.init(Shape({2, 2}), v6, dev));
  EXPECT_REJECTED_UNCHANGED("init(values): too few values, parameter with statistics", p, names, p.init(Shape({2, 3}), V{1, 2}, dev));
  EXPECT_REJECTED_UNCHANGED("init(values): batched shape, parameter with statistics", p, names, p.init(Shape({2, 3}, 2), V(12, 1.0f), dev));
  EXPECT_REJECTED_UNCHANGED("init(initializer): batched shape, parameter with statistics", p, names, p.init(Shape({2, 3}, 2), initializers::Constant(1.0f), dev));
  EXPECT_REJECTED_UNCHANGED("init(initializer): Identity on a non-square shape, parameter with statistics", p, names, p.init(Shape({2, 3}), initializers::Identity(), dev));
  EXPECT_REJECTED_UNCHANGED("add_stats: duplicate name", p, names, p.add_stats("s", Shape({5})));
  EXPECT_REJECTED_UNCHANGED("load: file does not exist", p, names, p.load("/verif/_work/no-such-file-for-fault-drv", true, dev));
  // optimizer-registered statistics survive a rejected init and the optimizer stays usable
  {
    Parameter q(Shape({2}), V{1, 2}, dev);
    optimizers::Adam adam; adam.add(q);
    q.gradient() += dev.new_tensor_by_constant(Shape({2}), 1.0f);
    adam.update();
    const std::vector<std::string> an = {"Adam.m1", "Adam.m2"};
    EXPECT_REJECTED_UNCHANGED("init(values): size mismatch on an optimizer-registered parameter", q, an, q.init(Shape({3}), V{1, 2}, dev));
    q.gradient() += dev.new_tensor_by_constant(Shape({2}), 1.0f);
    std::string r = outcome([&]() { adam.update(); });
    if (r != "ok") fail("Adam::update() after a rejected Parameter::init", r); else ok("adam usable");
  }
  // a SUCCESSFUL init drops the statistics (documented behaviour of init): make sure the check above is not vacuous
  {
    Parameter q(Shape({2}), V{1, 2}, dev); q.add_stats("s", Shape({2}));
    q.init(Shape({3}), V{1, 2, 3}, dev);
    if (q.shape() != Shape({3})) fail("successful init", "shape not replaced"); else ok("init ok");
  }
  // allocation failure inside init() of a parameter with statistics
  pvh::MemStats &m = pvh::mem();
  pvh::CheckedNaive cdev(9u);
  for (long k = 0; k < 4; ++k) {
    Parameter q(Shape({2, 3}), v6, cdev);
    q.add_stats("s", Shape({2})); q.stats("s").reset_by_vector(V{3, -4});
    const std::vector<std::string> qn = {"s"};
    PSnap b = psnap(q, qn);
    m.fail_at = m.total + k;
    std::string r = outcome([&]() { q.init(Shape({3, 2}), V{9, 8, 7, 6, 5, 4}, cdev); });
    m.fail_at = -1;
    if (r == "Error") { std::string d = pdiff(b, psnap(q, qn)); if (d != "") fail("Parameter::init alloc failure k=" + std::to_string(k) + " (with statistics)", d); else ok("init alloc fail"); }
    else if (r != "ok") fail("Parameter::init alloc failure (with statistics)", r);
  }
}

// ---- data vectors whose length does not match the shape: every construction path must reject them
static void wrong_size_data() {
  devices::Naive dev(5u); devices::Eigen edev(5u);
  Graph g; Graph::set_default(g);
  const V v6 = {1, 2, 3, 4, 5, 6};
  for (Device *d : {static_cast<Device *>(&dev), static_cast<Device *>(&edev)}) {
    Device::set_default(*d);
    for (const V &bad : {V{}, V{1, 2}, V{1, 2, 3, 4, 5}, V{1, 2, 3, 4, 5, 6, 7}}) {
      const std::string n = " (" + std::to_string(bad.size()) + " values for [2,3])";
      EXPECT_ERROR("new_tensor_by_vector" + n, d->new_tensor_by_vector(Shape({2, 3}), bad));
      EXPECT_ERROR("input<Tensor>" + n, F::input<Tensor>(Shape({2, 3}), bad, *d));
      EXPECT_ERROR("input<Node>" + n, F::input<Node>(Shape({2, 3}), bad, *d));
      EXPECT_ERROR("Parameter(shape, values)" + n, Parameter(Shape({2, 3}), bad, *d));
      Tensor t = d->new_tensor_by_vector(Shape({2, 3}), v6);
      EXPECT_ERROR("Tensor::reset_by_vector" + n, t.reset_by_vector(bad));
      if (!same(t.to_vector(), v6)) fail("Tensor::reset_by_vector" + n, "rejected call changed the tensor"); else ok("t unchanged");
      Parameter p(Shape({2, 3}), v6, *d);
      EXPECT_ERROR("Parameter::init(shape, values)" + n, p.init(Shape({2, 3}), bad, *d));
      if (!same(p.value().to_vector(), v6)) fail("Parameter::init" + n, "rejected call changed the parameter"); else ok("p unchanged");
    }
    // batched shapes: volume * batch values are required
    EXPECT_ERROR("new_tensor_by_vector: 6 values for [2,3]x2", d->new_tensor_by_vector(Shape({2, 3}, 2), v6));
    EXPECT_ERROR("input<Node>: 6 values for [2,3]x2", F::input<Node>(Shape({2, 3}, 2), v6, *d));
  }
}

// ---- backward entry points called with ONE operand of an inconsistent shape: the guard must
// reject the call and leave the gradient operand(s) unchanged (the kernels index gy/gx through
// the shapes of x/y, so an accepted mismatch is an out-of-bounds access)
static Shape perturbed(const Shape &s, int kind) {
  std::vector<std::uint32_t> d;
  for (std::uint32_t i = 0; i < s.depth(); ++i) d.push_back(s[i]);
  if (kind == 0) { if (d.empty()) d.push_back(2); else d[0] += 1; return Shape(d, s.batch()); }
  if (kind == 1) { d.push_back(2); return Shape(d, s.batch()); }
  return Shape(d, s.batch() + 1);
}
static void bw_shape_guards() {
  for (int which_dev = 0; which_dev < 2; ++which_dev) {
    devices::Naive ndev(11u); devices::Eigen edev(11u);
    Device &dev = which_dev ? static_cast<Device &>(edev) : static_cast<Device &>(ndev);
    Device::set_default(dev);
    const std::string dn = which_dev ? "eigen " : "naive ";
    auto fill = [&](const Shape &sh, float base) { V v(sh.size()); for (size_t i = 0; i < v.size(); ++i) v[i] = base + (float)((i * 5) % 7) - 3.0f; return dev.new_tensor_by_vector(sh, v); };
    // op(x, y, gy, gx): valid call first, then every operand perturbed in three ways
    struct Entry { std::string name; Shape sx; std::function<Tensor(const Tensor &)> fw; std::function<void(const Tensor &, const Tensor &, const Tensor &, Tensor &)> bw; };
    std::vector<Entry> es;
    es.push_back({"permute_dims_bw", Shape({2, 3, 4}, 2), [&](const Tensor &x) { return dev.permute_dims_fw(x, {2, 0, 1}); },
                  [&](const Tensor &x, const Tensor &y, const Tensor &gy, Tensor &gx) { dev.permute_dims_bw(x, y, gy, {2, 0, 1}, gx); }});
    es.push_back({"pown_bw", Shape({2, 3}, 2), [&](const Tensor &x) { return dev.pown_fw(x, 3); },
                  [&](const Tensor &x, const Tensor &y, const Tensor &gy, Tensor &gx) { dev.pown_bw(x, y, gy, 3, gx); }});
    es.push_back({"max_pool2d_bw", Shape({4, 4, 2}, 2), [&](const Tensor &x) { return dev.max_pool2d_fw(x, 2, 2, 0, 0, 2, 2); },
                  [&](const Tensor &x, const Tensor &y, const Tensor &gy, Tensor &gx) { dev.max_pool2d_bw(x, y, gy, 2, 2, 0, 0, 2, 2, gx); }});
    es.push_back({"max_bw", Shape({2, 3, 2}, 2), [&](const Tensor &x) { return dev.max_fw(x, 1); },
                  [&](const Tensor &x, const Tensor &y, const Tensor &gy, Tensor &gx) { dev.max_bw(x, y, gy, 1, gx); }});
    es.push_back({"min_bw", Shape({2, 3, 2}, 2), [&](const Tensor &x) { return dev.min_fw(x, 1); },
                  [&](const Tensor &x, const Tensor &y, const Tensor &gy, Tensor &gx) { dev.min_bw(x, y, gy, 1, gx); }});
    es.push_back({"transpose_bw", Shape({2, 3}, 2), [&](const Tensor &x) { return dev.transpose_fw(x); },
                  [&](const Tensor &x, const Tensor &y, const Tensor &gy, Tensor &gx) { dev.transpose_bw(x, y, gy, gx); }});
    es.push_back({"tanh_bw", Shape({2, 3}, 2), [&](const Tensor &x) { return dev.tanh_fw(x); },
                  [&](const Tensor &x, const Tensor &y, const Tensor &gy, Tensor &gx) { dev.tanh_bw(x, y, gy, gx); }});
    es.push_back({"prelu_bw", Shape({2, 3}, 2), [&](const Tensor &x) { return dev.prelu_fw(x, 0.25f); },
                  [&](const Tensor &x, const Tensor &y, const Tensor &gy, Tensor &gx) { dev.prelu_bw(x, y, gy, 0.25f, gx); }});
    for (const Entry &e : es) {
      Tensor x = fill(e.sx, 0.5f), y = e.fw(x);
      Tensor gy = fill(y.shape(), 1.0f), gx = fill(e.sx, 2.0f);
      const V gx0 = gx.to_vector();
      std::string r0 = outcome([&]() { e.bw(x, y, gy, gx); });
      if (r0 != "ok") { fail(dn + e.name + " consistent call", r0); continue; } else ok("valid bw");
      for (int operand = 0; operand < 3; ++operand) for (int kind = 0; kind < 3; ++kind) {
        Tensor y2 = operand == 0 ? fill(perturbed(y.shape(), kind), 0.5f) : y;
        Tensor gy2 = operand == 1 ? fill(perturbed(y.shape(), kind), 1.0f) : gy;
        Tensor gx2 = fill(operand == 2 ? perturbed(e.sx, kind) : e.sx, 2.0f);
        const V before = gx2.to_vector();
        const std::string what = dn + e.name + ": " + (operand == 0 ? "y" : operand == 1 ? "gy" : "gx") + " of shape " +
                                 (operand == 2 ? gx2.shape() : operand == 1 ? gy2.shape() : y2.shape()).to_string() + " (x " + e.sx.to_string() + ")";
        std::string r = outcome([&]() { e.bw(x, y2, gy2, gx2); });
        if (r != "Error") fail(what, "inconsistent operand accepted: " + r);
        else if (!same(gx2.to_vector(), before)) fail(what, "rejected call changed gx");
        else ok(what);
      }
    }
    // flip_bw(gy, dim, gx)
    {
      const Shape sx({2, 3, 2}, 2);
      for (int kind = 0; kind < 3; ++kind) {
        Tensor gy = fill(perturbed(sx, kind), 1.0f), gx = fill(sx, 2.0f); const V before = gx.to_vector();
        const std::string what = dn + "flip_bw: gy of shape " + gy.shape().to_string() + " (gx " + sx.to_string() + ")";
        std::string r = outcome([&]() { dev.flip_bw(gy, 1, gx); });
        if (r != "Error") fail(what, "inconsistent operand accepted: " + r); else if (!same(gx.to_vector(), before)) fail(what, "rejected call changed gx"); else ok(what);
      }
    }
    // conv2d_bw(x, w, y, gy, ..., gx, gw)
    {
      const Shape sx({4, 4, 2}, 2), sw({2, 2, 2, 3});
      Tensor x = fill(sx, 0.5f), w = fill(sw, 0.25f), y = dev.conv2d_fw(x, w, 0, 0, 1, 1, 1, 1);
      for (int operand = 0; operand < 4; ++operand) for (int kind = 0; kind < 3; ++kind) {
        Tensor y2 = operand == 0 ? fill(perturbed(y.shape(), kind), 0.5f) : y;
        Tensor gy2 = fill(operand == 1 ? perturbed(y.shape(), kind) : y.shape(), 1.0f);
        Tensor gx2 = fill(operand == 2 ? perturbed(sx, kind) : sx, 2.0f), gw2 = fill(operand == 3 ? perturbed(sw, kind) : sw, 3.0f);
        const V bx = gx2.to_vector(), bw = gw2.to_vector();
        const std::string what = dn + "conv2d_bw: operand " + std::string(operand == 0 ? "y" : operand == 1 ? "gy" : operand == 2 ? "gx" : "gw") + " perturbed (kind " + std::to_string(kind) + ")";
        std::string r = outcome([&]() { dev.conv2d_bw(x, w, y2, gy2, 0, 0, 1, 1, 1, 1, gx2, gw2); });
        if (r != "Error") fail(what, "inconsistent operand accepted: " + r);
        else if (!same(gx2.to_vector(), bx) || !same(gw2.to_vector(), bw)) fail(what, "rejected call changed gx/gw");
        else ok(what);
      }
      Tensor gy = fill(y.shape(), 1.0f), gx = fill(sx, 2.0f), gw = fill(sw, 3.0f);
      std::string r = outcome([&]() { dev.conv2d_bw(x, w, y, gy, 0, 0, 1, 1, 1, 1, gx, gw); });
      if (r != "ok") fail(dn + "conv2d_bw consistent call", r); else ok("valid conv2d_bw");
      // attributes that do not match the y that was computed
      Tensor gx3 = fill(sx, 2.0f), gw3 = fill(sw, 3.0f);
      EXPECT_ERROR(dn + "conv2d_bw: stride differs from the forward call", dev.conv2d_bw(x, w, y, gy, 0, 0, 2, 1, 1, 1, gx3, gw3));
      EXPECT_ERROR(dn + "conv2d_bw: padding differs from the forward call", dev.conv2d_bw(x, w, y, gy, 1, 0, 1, 1, 1, 1, gx3, gw3));
    }
  }
}

// ---- Shape: a rejected in-place update (update_dim / update_batch) leaves the Shape exactly as it was
static void shape_updates() {
  struct Case { Shape s; int kind; std::uint32_t a, b; const char *what; };
  const std::vector<Case> cases = {
    {Shape({65536, 65535}), 0, 2, 2, "update_dim appends an axis, volume exceeds 2^32-1"},
    {Shape({3}, 0x40000000u), 0, 1, 2, "update_dim appends an axis, volume*batch exceeds 2^32-1"},
    {Shape({}, 0x80000000u), 0, 0, 2, "update_dim on a scalar with a huge batch"},
    {Shape({3, 4}, 1u << 28), 0, 5, 2, "update_dim appends axis 5 with a large batch"},
    {Shape({65536, 32768}), 0, 1, 65536, "update_dim resizes an existing axis beyond the limit"},
    {Shape({2, 3}, 2), 0, 1, 0, "update_dim to extent 0"},
    {Shape({2, 3}, 2), 0, 8, 2, "update_dim at MAX_DEPTH"},
    {Shape({2, 3}, 2), 0, 0xffffffffu, 2, "update_dim at axis 2^32-1"},
    {Shape({2, 3}, 2), 1, 0, 0, "update_batch to 0"},
    {Shape({65536, 65535}), 1, 2, 0, "update_batch beyond the limit"},
  };
  for (const Case &c : cases) {
    Shape s = c.s; const Shape before = c.s;
    const std::string str = s.to_string(); const std::uint32_t dp = s.depth();
    std::string r = outcome([&]() { if (c.kind == 0) s.update_dim(c.a, c.b); else s.update_batch(c.a); });
    if (r != "Error") { fail(std::string("Shape: ") + c.what, "expected primitiv::Error, got " + r); continue; }
    if (!(s == before) || s.depth() != dp || s.to_string() != str || s.dims() != before.dims() || s.volume() != before.volume() || s.batch() != before.batch()
        || s.is_scalar() != before.is_scalar() || s.is_matrix() != before.is_matrix())
      fail(std::string("Shape: ") + c.what, "rejected call changed the Shape: " + str + " -> " + s.to_string() + " (depth " + std::to_string(dp) + " -> " + std::to_string(s.depth()) + ")");
    else ok(c.what);
  }
  // successful updates for contrast (the check above is not vacuous)
  Shape t({2, 3}, 2); t.update_dim(2, 4); if (t != Shape({2, 3, 4}, 2)) fail("Shape: successful update_dim", t.to_string()); else ok("update ok");
  t.update_dim(2, 1); if (t != Shape({2, 3}, 2) || t.depth() != 2) fail("Shape: update_dim back to 1 trims the axis", t.to_string()); else ok("trim ok");
}

static void invalid_objects() {
  devices::Naive dev(1u), dev2(2u);
  Device::set_default(dev);
  Graph g1, g2; Graph::set_default(g1);
  V v6 = {1, 2, 3, 4, 5, 6};
  // default-constructed / moved-from tensors
  Tensor inv; Tensor a = dev.new_tensor_by_vector(Shape({2, 3}), v6); Tensor moved = a; Tensor b = std::move(moved);
  for (Tensor *t : {&inv, &moved}) {
    EXPECT_ERROR("invalid tensor shape()", t->shape());
    EXPECT_ERROR("invalid tensor device()", t->device());
    EXPECT_ERROR("invalid tensor to_vector()", t->to_vector());
    EXPECT_ERROR("invalid tensor to_float()", t->to_float());
    EXPECT_ERROR("invalid tensor argmax()", t->argmax(0));
    EXPECT_ERROR("invalid tensor reset()", t->reset(1));
    EXPECT_ERROR("invalid tensor reshape()", t->reshape(Shape({6})));
    EXPECT_ERROR("invalid tensor flatten()", t->flatten());
    EXPECT_ERROR("invalid tensor +=", *t += b);
    EXPECT_ERROR("valid += invalid", b += *t);
    EXPECT_ERROR("invalid tensor *=", *t *= 2);
    EXPECT_ERROR("invalid tensor + valid", F::add(*t, b));
    EXPECT_ERROR("exp(invalid)", F::exp(*t));
    EXPECT_ERROR("concat({valid, invalid})", F::concat({&b, t}, 0));
  }
  if (!same(b.to_vector(), v6)) fail("valid tensor after rejected ops", "contents changed"); else ok("b unchanged");
  // default-constructed node
  Node ninv;
  EXPECT_ERROR("invalid node shape()", ninv.shape());
  EXPECT_ERROR("invalid node to_vector()", ninv.to_vector());
  EXPECT_ERROR("invalid node backward()", ninv.backward());
  EXPECT_ERROR("invalid node graph()", ninv.graph());
  // nodes of different graphs, also the scalar-first form that used to read out of bounds
  Node n1 = F::input_node(Shape({2, 3}), v6, &dev, &g1);
  Node n2 = F::input_node(Shape({2, 3}), v6, &dev, &g2);
  Node s2 = F::input_node(Shape(), V{2.0f}, &dev, &g2);
  std::uint32_t c1 = g1.num_operators(), c2 = g2.num_operators();
  EXPECT_ERROR("node(g1) + node(g2)", n1 + n2);
  EXPECT_ERROR("node(g2) + node(g1)", n2 + n1);
  EXPECT_ERROR("scalar node(g2) * node(g1)", s2 * n1);
  EXPECT_ERROR("concat of nodes of two graphs", F::concat({n1, n2}, 0));
  if (g1.num_operators() != c1 || g2.num_operators() != c2) fail("foreign-graph combination", "operator count changed"); else ok("graphs unchanged");
  if (!same(n1.to_vector(), v6) || !same(n2.to_vector(), v6)) fail("foreign-graph combination", "node values changed"); else ok("values unchanged");
  // tensors of different devices
  Tensor t1 = dev.new_tensor_by_vector(Shape({2, 3}), v6), t2 = dev2.new_tensor_by_vector(Shape({2, 3}), v6);
  EXPECT_ERROR("tensor(dev1) + tensor(dev2)", F::add(t1, t2));
  EXPECT_ERROR("tensor(dev1) += tensor(dev2)", t1 += t2);
  EXPECT_ERROR("matmul across devices", F::matmul(F::transpose(t1), t2));
  if (!same(t1.to_vector(), v6)) fail("cross-device +=", "destination changed"); else ok("t1 unchanged");
  // invalid parameter
  Parameter pinv; Parameter p(Shape({2, 3}), v6, dev);
  EXPECT_ERROR("invalid parameter shape()", pinv.shape());
  EXPECT_ERROR("invalid parameter value()", pinv.value());
  EXPECT_ERROR("invalid parameter gradient()", pinv.gradient());
  EXPECT_ERROR("invalid parameter reset_gradient()", pinv.reset_gradient());
  EXPECT_ERROR("invalid parameter save()", pinv.save("/verif/_work/fault-tmp-never-written"));
  EXPECT_ERROR("invalid parameter add_stats()", pinv.add_stats("a", Shape({2})));
  EXPECT_ERROR("parameter<Node>(invalid)", F::parameter<Node>(pinv));
  EXPECT_ERROR("Parameter init: size mismatch", p.init(Shape({2, 2}), v6, dev));
  EXPECT_ERROR("Parameter ctor: batched shape", Parameter(Shape({2, 3}, 2), V(12, 1.0f), dev));
  EXPECT_ERROR("Parameter add_stats duplicate", (p.add_stats("s", Shape({2})), p.add_stats("s", Shape({2}))));
  if (p.shape() != Shape({2, 3}) || !same(p.value().to_vector(), v6)) fail("parameter after rejected init", "changed"); else ok("p unchanged");
  // optimizer: rejected settings and rejected add leave everything unchanged
  optimizers::SGD opt(0.5f);
  opt.add(p);
  float lr = opt.get_learning_rate_scaling(), l2 = opt.get_weight_decay(), cl = opt.get_gradient_clipping();
  EXPECT_ERROR("negative lr scaling", opt.set_learning_rate_scaling(-1));
  EXPECT_ERROR("negative weight decay", opt.set_weight_decay(-1));
  EXPECT_ERROR("negative clipping", opt.set_gradient_clipping(-1));
  EXPECT_ERROR("negative lr_scale through set_configs", opt.set_configs({}, {{"Optimizer.lr_scale", -1.0f}}));
  if (opt.get_learning_rate_scaling() != lr || opt.get_weight_decay() != l2 || opt.get_gradient_clipping() != cl) fail("optimizer after rejected setters", "changed"); else ok("opt unchanged");
  // optimizers with per-parameter statistics reject an invalid parameter and stay usable
  {
    optimizers::MomentumSGD mopt(0.5f, 0.9f);
    mopt.add(p);
    EXPECT_ERROR("MomentumSGD add(invalid parameter)", mopt.add(pinv));
    p.gradient() += dev.new_tensor_by_constant(Shape({2, 3}), 1.0f);
    std::string r = outcome([&]() { mopt.update(); });
    if (r != "ok") fail("update() after a rejected add(invalid)", r); else ok("update ok");
    if (mopt.get_epoch() != 1) fail("epoch after update", "not incremented"); else ok("epoch");
  }
  // known finding D21: SGD accepts an uninitialised parameter (by design, the pinned tests do it);
  // update() then raises Error after updating the parameters it visited earlier.  The visiting order is
  // the iteration order of an unordered_set<Parameter *> (hash of the addresses, insertion history), so
  // the invalid parameter is registered in EVERY position among NV valid ones, each arrangement on a
  // fresh optimizer with fresh parameters: state-changed=1 iff in SOME arrangement a valid parameter's
  // value or the epoch changed although update() raised.  A wrong exception TYPE from add()/update(), or
  // an update() that returns normally with the invalid parameter registered, is an ordinary FAIL.
  {
    const unsigned NV = 4; unsigned changed_in = 0, arrangements = 0; std::string ra = "ok", ru = "Error";
    for (unsigned pos = 0; pos <= NV; ++pos) {
      optimizers::SGD sopt(0.5f);
      std::vector<std::unique_ptr<Parameter>> qs;
      for (unsigned i = 0; i < NV; ++i) qs.emplace_back(new Parameter(Shape({2}), V{1.f + i, 2.f + i}, dev));
      std::string a = "ok";
      for (unsigned i = 0; i <= NV; ++i) {
        if (i == pos) a = outcome([&]() { sopt.add(pinv); });
        if (i < NV) sopt.add(*qs[i]);
      }
      std::vector<V> before;
      for (auto &q : qs) { q->gradient() += dev.new_tensor_by_constant(Shape({2}), 1.0f); before.push_back(q->value().to_vector()); }
      std::uint32_t ep = sopt.get_epoch();
      std::string u = outcome([&]() { sopt.update(); });
      bool changed = sopt.get_epoch() != ep;
      for (unsigned i = 0; i < NV; ++i) if (!same(qs[i]->value().to_vector(), before[i])) changed = true;
      ++arrangements;
      if (a != "ok") ra = a;
      if (a == "ok" && u != "Error") ru = u;
      if (a == "ok" && u == "Error" && changed) ++changed_in;
    }
    if (ra != "ok" && ra != "Error") fail("SGD::add(invalid parameter)", "neither accepted nor primitiv::Error: " + ra);
    else if (ra == "ok" && ru == "ok") fail("SGD::update() with a registered invalid parameter", "returned normally (the failure is not reported)");
    else if (ra == "ok" && ru != "Error") fail("SGD::update() with a registered invalid parameter", "expected primitiv::Error, got " + ru);
    std::cout << "D21 add=" << ra << " update=" << ru << " state-changed=" << (changed_in ? 1 : 0) << " arrangements=" << arrangements << " changed-in=" << changed_in << "\n";
  }
  // model lookups
  Model m; m.add("p", p);
  EXPECT_ERROR("get_parameter unknown", m.get_parameter("q"));
  EXPECT_ERROR("get_parameter empty path", m.get_parameter(std::vector<std::string>{}));
  EXPECT_ERROR("get_submodel empty path", m.get_submodel(std::vector<std::string>{}));
  EXPECT_ERROR("model add duplicate name", (m.add("p", pinv)));
  {
    // a rejected add (same object under a second name) must leave the registry unchanged:
    // the name stays free and the enumeration is the same
    Parameter p2(Shape({2}), V{1, 2}, dev);
    Model sub;
    const size_t n0 = m.get_all_parameters().size();
    EXPECT_ERROR("model add same parameter under a second name", m.add("q", p));
    if (m.get_all_parameters().size() != n0) fail("rejected Model::add", "enumeration changed");
    std::string r1 = outcome([&]() { m.add("q", p2); });
    if (r1 != "ok") fail("Model::add after a rejected add of the same name", "name was left reserved: " + r1); else ok("name free");
    m.add("s", sub);
    EXPECT_ERROR("model add same submodel under a second name", m.add("t", sub));
    Model sub2;
    std::string r2 = outcome([&]() { m.add("t", sub2); });
    if (r2 != "ok") fail("Model::add(submodel) after a rejected add of the same name", "name was left reserved: " + r2); else ok("name free (submodel)");
    EXPECT_ERROR("model add itself", m.add("self", m));
    Model top; top.add("m", m);
    EXPECT_ERROR("model add ancestor (cycle)", m.add("up", top));
    if (m.get_all_parameters().size() != n0 + 1) fail("model after rejected adds", "enumeration changed"); else ok("model unchanged");
  }
  // known finding D7: unknown statistics name raises std::out_of_range (exactly that type: any other
  // non-Error exception, e.g. bad_alloc or logic_error, or no exception at all is an ordinary FAIL)
  {
    std::string d7;
    try { p.stats("nope"); d7 = "ok"; }
    catch (Error &) { d7 = "Error"; }
    catch (std::out_of_range &) { d7 = "out_of_range"; }
    catch (std::exception &e) { d7 = std::string("other-exception:") + e.what(); }
    if (d7 != "Error" && d7 != "out_of_range") fail("Parameter::stats(unknown name)", "expected primitiv::Error (known finding: std::out_of_range), got " + d7);
    std::cout << "D7 " << d7 << "\n";
  }
}


// ---- mode `random`: allocation failure at every k of a program WITH random sources and a
// two-output split; the retry must equal the never-failing run bit for bit (values of the
// random nodes included) and leave the device's random stream at the same position.
// usage: fault_drv random <n_seeds>.  Lines: `ok random ...` / `FAIL random ...`, RANDOM-SUMMARY.
static std::vector<Node> build_random(unsigned kind, Device &dev) {
  std::vector<Node> obs;
  V xin(4); for (size_t i = 0; i < xin.size(); ++i) xin[i] = (float)((int)(i * 7 % 11) - 5) * 0.25f;
  Node x = F::input<Node>(Shape({4}), xin, dev);
  Node r1 = F::random::bernoulli<Node>(Shape({4}), 0.5f, dev);
  std::vector<Node> s = F::split(F::concat({x, x + 1.0f}, 0), 0, 2);
  Node r2 = F::random::uniform<Node>(Shape({4}), -1.0f, 1.0f, dev);
  Node y;
  switch (kind % 3) {
    case 0: y = (s[0] * r1 + s[1]) * r2; break;
    case 1: y = F::dropout(s[1], 0.5f, true) + s[0] * r2 + r1; break;          // dropout = one more random node
    default: y = s[0] * r2 + F::random::normal<Node>(Shape({4}), 0.0f, 1.0f, dev) * r1 + s[1]; break;
  }
  obs.push_back(r1); obs.push_back(r2); obs.push_back(s[1]); obs.push_back(y); obs.push_back(F::sum(y, 0));
  return obs;
}
static int random_mode(int nseeds) {
  pvh::MemStats &m = pvh::mem();
  for (int sd = 0; sd < nseeds; ++sd) for (unsigned kind = 0; kind < 3; ++kind) {
    const std::string what = "random seed=" + std::to_string(sd) + " kind=" + std::to_string(kind);
    std::vector<V> ref; V ref_stream; long nalloc;
    {
      pvh::CheckedNaive dev(100u + sd); Device::set_default(dev);
      Graph g; Graph::set_default(g);
      std::vector<Node> obs = build_random(kind, dev);
      long before = m.total;
      V z = obs.back().to_vector();                       // the request
      nalloc = m.total - before;
      for (Node &n : obs) ref.push_back(n.to_vector());   // memoised: no further draw
      ref_stream = dev.random_uniform(Shape({3}), 0.0f, 1.0f).to_vector();   // stream position fingerprint
    }
    for (long k = 0; k < nalloc; ++k) {
      pvh::CheckedNaive dev(100u + sd); Device::set_default(dev);
      Graph g; Graph::set_default(g);
      std::vector<Node> obs = build_random(kind, dev);
      m.fail_at = m.total + k;
      std::string r = outcome([&]() { obs.back().to_vector(); });
      m.fail_at = -1;
      if (r != "Error") { fail(what, "allocation failure k=" + std::to_string(k) + " surfaced as " + r); continue; }
      bool good = true;
      V z; std::string r2 = outcome([&]() { z = obs.back().to_vector(); });
      if (r2 != "ok" || !same(z, ref.back())) { good = false; fail(what, "k=" + std::to_string(k) + ": retry of the request differs from the never-failing run (" + r2 + ")"); }
      for (size_t i = 0; good && i < obs.size(); ++i) {
        V v = obs[i].to_vector();
        if (!same(v, ref[i])) { good = false; fail(what, "k=" + std::to_string(k) + ": node " + std::to_string(i) + " differs from the never-failing run after the retry"); }
      }
      if (good && !same(dev.random_uniform(Shape({3}), 0.0f, 1.0f).to_vector(), ref_stream)) { good = false; fail(what, "k=" + std::to_string(k) + ": random stream position differs after the retry"); }
      if (good) { ok(what); }
    }
    std::cout << (fails ? "FAIL " : "ok ") << what << " allocations=" << nalloc << "\n";
    if (m.guard_damage) { fail(what, "guard damage"); m.guard_damage = 0; }
  }
  std::cout << "RANDOM-SUMMARY ok=" << oks << " fail=" << fails << "\n";
  return 0;
}

// ---- mode `pinit`: Parameter::init / add_stats with the allocation failure at every index k, printed
// for the comparison with the Coq model Fault/ParamInit.v (engines/c10.py param_init_tie):
//   PINIT <op> k=<k> outcome=<Error|ok> live_delta=<d> stats=<number of statistics afterwards>
static int pinit_mode() {
  pvh::MemStats &m = pvh::mem();
  pvh::CheckedNaive dev(9u);
  Device::set_default(dev);
  const V v6 = {1, 2, 3, 4, 5, 6};
  for (int with_stats = 0; with_stats < 2; ++with_stats) for (long k = 0; k < 4; ++k) {
    Parameter q(Shape({2, 3}), v6, dev);
    if (with_stats) { q.add_stats("s", Shape({2})); }
    const long live0 = m.live;
    m.fail_at = m.total + k;
    std::string r = outcome([&]() { q.init(Shape({3, 2}), V{9, 8, 7, 6, 5, 4}, dev); });
    m.fail_at = -1;
    std::cout << "PINIT init" << with_stats << " k=" << k << " outcome=" << r << " live_delta=" << (m.live - live0) << " stats=" << (q.has_stats("s") ? 1 : 0) << "\n";
  }
  for (long k = 0; k < 3; ++k) {
    Parameter q(Shape({2, 3}), v6, dev);
    const long live0 = m.live;
    m.fail_at = m.total + k;
    std::string r = outcome([&]() { q.add_stats("s", Shape({2})); });
    m.fail_at = -1;
    std::cout << "PINIT addstats k=" << k << " outcome=" << r << " live_delta=" << (m.live - live0) << " stats=" << (q.has_stats("s") ? 1 : 0) << "\n";
  }
  { // rejected for a reason other than allocation: size mismatch, batched shape, duplicate statistic
    Parameter q(Shape({2, 3}), v6, dev); q.add_stats("s", Shape({2}));
    long live0 = m.live;
    std::string r = outcome([&]() { q.init(Shape({2, 2}), v6, dev); });
    std::cout << "PINIT init-size k=-1 outcome=" << r << " live_delta=" << (m.live - live0) << " stats=" << (q.has_stats("s") ? 1 : 0) << "\n";
    live0 = m.live;
    r = outcome([&]() { q.init(Shape({2, 3}, 2), V(12, 1.0f), dev); });
    std::cout << "PINIT init-batch k=-1 outcome=" << r << " live_delta=" << (m.live - live0) << " stats=" << (q.has_stats("s") ? 1 : 0) << "\n";
    live0 = m.live;
    r = outcome([&]() { q.add_stats("s", Shape({5})); });
    std::cout << "PINIT addstats-dup k=-1 outcome=" << r << " live_delta=" << (m.live - live0) << " stats=" << (q.has_stats("s") ? 1 : 0) << "\n";
  }
  return 0;
}

int main(int argc, char **argv) {
  if (argc > 1 && std::string(argv[1]) == "random") return random_mode(argc > 2 ? std::stoi(argv[2]) : 3);
  if (argc > 1 && std::string(argv[1]) == "pinit") return pinit_mode();
  unsigned seed = argc > 1 ? std::stoul(argv[1]) : 1;
  int n = argc > 2 ? std::stoi(argv[2]) : 12;
  std::mt19937 rng(seed);
  // each block under a catch-all: an exception escaping a block is itself a finding, not a crash
  { std::string r = outcome([&]() { invalid_objects(); }); if (r != "ok") fail("block invalid_objects", "escaped: " + r); }
  { std::string r = outcome([&]() { shape_updates(); }); if (r != "ok") fail("block shape_updates", "escaped: " + r); }
  { std::string r = outcome([&]() { wrong_size_data(); }); if (r != "ok") fail("block wrong_size_data", "escaped: " + r); }
  { std::string r = outcome([&]() { bw_shape_guards(); }); if (r != "ok") fail("block bw_shape_guards", "escaped: " + r); }
  { std::string r = outcome([&]() { parameter_with_stats(); }); if (r != "ok") fail("block parameter_with_stats", "escaped: " + r); }
  { std::string r = outcome([&]() { alloc_failure_objects(); }); if (r != "ok") fail("block alloc_failure_objects", "escaped: " + r); }
  for (int i = 0; i < n; ++i) {
    Prog p{(unsigned)i, 2 + (std::uint32_t)(rng() % 3), 2 + (std::uint32_t)(rng() % 3), 1 + (std::uint32_t)(rng() % 3)};
    alloc_failure_program(p);
  }
  std::cout << "SUMMARY ok=" << oks << " fail=" << fails << "\n";
  return 0;
}
