// Probe for the observation made while proving front_end_guards_sound_matmul_bw
// (coq/Tensor/FrontEndBilinear.v, matmul_bw_temporary_rejected): Naive::matmul_bw_impl is
//   inplace_add_impl(matmul_fw(gy, transpose_fw(b)), ga);
//   inplace_add_impl(matmul_fw(transpose_fw(a), gy), gb);
// The second temporary has the dims of b and the batch max(a.batch, b.batch).  With a shared
// (batch 1) b of 2^30 elements and a minibatched a it has 2^32 elements: the nested matmul_fw
// raises Error AFTER ga has been updated.  Needs about 13 GiB.
//   matmul_bw_probe [n]   (n = 32768 by default; b = [n,n]x1, a = [1,n]x4)
// Last line and exit code (engines/c10.py reads both; anything else = the probe did not run):
//   VERDICT updated-before-error   rc 0   Error raised by the SHAPE guard (not by the allocator) and ga[0] != 0
//   VERDICT unchanged              rc 0   Error raised and ga[0] == 0 (failure-atomic)
//   VERDICT no-error               rc 0   the call returned
//   VERDICT could-not-run <why>    rc 3   set-up failed, or the Error came from the allocator (out of memory)
//   VERDICT wrong-exception <what> rc 0   matmul_bw raised something that is not primitiv::Error
#include <primitiv/primitiv.h>
#include <primitiv/core/shape_ops.h>
#include <cstdlib>
#include <iostream>
using namespace primitiv;
int main(int argc, char **argv) {
  const std::uint32_t n = argc > 1 ? std::strtoul(argv[1], nullptr, 10) : 32768u;
  devices::Naive dev; Device::set_default(dev);
  try {
    Tensor a = dev.new_tensor_by_constant(Shape({1, n}, 4), 1.0f);
    Tensor b = dev.new_tensor_by_constant(Shape({n, n}, 1), 0.0f);
    Tensor ga = dev.new_tensor_by_constant(a.shape(), 0.0f);
    Tensor gb = dev.new_tensor_by_constant(b.shape(), 0.0f);
    const Shape sy = shape_ops::matmul(a.shape(), b.shape());
    Tensor y = dev.new_tensor_by_constant(sy, 0.0f);   // value of y is irrelevant to matmul_bw
    Tensor gy = dev.new_tensor_by_constant(sy, 1.0f);
    std::cout << "shapes a=" << a.shape().to_string() << " b=" << b.shape().to_string()
              << " y=" << sy.to_string() << std::endl;
    // make b non-zero in one row so that gy . b^T is visibly non-zero without a 2^30 fill of 1s
    b.reset(1.0f);
    bool threw = false; std::string msg;
    try { dev.matmul_bw(a, b, y, gy, ga, gb); }
    catch (Error &e) { threw = true; msg = e.what(); }
    catch (std::bad_alloc &) { std::cout << "VERDICT could-not-run bad_alloc inside matmul_bw" << std::endl; return 3; }
    catch (std::exception &e) { std::cout << "VERDICT wrong-exception " << e.what() << std::endl; return 0; }
    const float ga0 = ga.to_vector()[0];
    std::cout << "matmul_bw " << (threw ? "raised Error" : "returned") << "; ga[0]=" << ga0
              << (threw && ga0 != 0 ? "  => ga was UPDATED before the Error" : "") << std::endl;
    if (threw) std::cout << "what: " << msg.substr(0, 160) << std::endl;
    // an Error of the allocator (memory shortage) is not the behaviour probed for
    const bool alloc = msg.find("emory") != std::string::npos || msg.find("alloc") != std::string::npos;
    if (threw && alloc) { std::cout << "VERDICT could-not-run allocation failure inside matmul_bw" << std::endl; return 3; }
    std::cout << "VERDICT " << (!threw ? "no-error" : ga0 != 0 ? "updated-before-error" : "unchanged") << std::endl;
  } catch (std::exception &e) { std::cout << "VERDICT could-not-run setup failed: " << e.what() << std::endl; return 3; }
  return 0;
}
