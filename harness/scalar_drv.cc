// scalar_drv: evaluates the REAL elementwise entry points Device::<op>_fw / <op>_bw of
// devices::Naive (prefix N) and devices::Eigen (prefix E), and the softmax family of
// primitiv::functions, on the points read from stdin.  One case per line, one result line per
// case (values printed with %.9g, which round-trips float32; `err` for primitiv::Error).
//
//   <D> f1 <op> x            y = op_fw(x)
//   <D> u  <op> x gy         y = op_fw(x); gx = 0; op_bw(x, y, gy, gx)          -> y gx
//   <D> fc <op> x k          y = op_fw(x, k)
//   <D> c  <op> x k gy       y = op_fw(x, k); op_bw(x, y, gy, k, gx)            -> y gx
//   <D> s  <op> x k          y = op_scalar_fw(x, Tensor k)
//   <D> fb <op> a b          y = op_fw(a, b)
//   <D> b  <op> a b gy       y = op_fw(a, b); op_bw(a, b, y, gy, ga, gb)        -> y ga gb
//   <D> fn x k               y = pown_fw(x, k)
//   <D> n  x k gy            y = pown_fw(x, k); pown_bw(x, y, gy, k, gx)        -> y gx
//   <D> lse|lsm|sm x1,..,xn  functions::logsumexp / log_softmax / softmax along axis 0
//   <D> sce x1,..,xn t1,..,tn  functions::softmax_cross_entropy(x, t, 0)
// All tensors are single elements (shape {}), except the softmax family (shape {n}).
#include <primitiv/primitiv.h>
#include <cstdio>
#include <cstdlib>
#include <map>
#include "pvh.h"
using namespace primitiv;
using namespace pvh;

typedef Tensor (Device::*Fw1)(const Tensor &);
typedef void (Device::*Bw1)(const Tensor &, const Tensor &, const Tensor &, Tensor &);
typedef Tensor (Device::*FwC)(const Tensor &, float);
typedef void (Device::*BwC)(const Tensor &, const Tensor &, const Tensor &, float, Tensor &);
typedef Tensor (Device::*Fw2)(const Tensor &, const Tensor &);
typedef void (Device::*Bw2)(const Tensor &, const Tensor &, const Tensor &, const Tensor &, Tensor &, Tensor &);

static std::map<std::string, Fw1> fw1;
static std::map<std::string, Bw1> bw1;
static std::map<std::string, FwC> fwc;
static std::map<std::string, BwC> bwc;
static std::map<std::string, Fw2> fws, fw2;
static std::map<std::string, Bw2> bw2;

#define U(n) fw1[#n] = &Device::n##_fw; bw1[#n] = &Device::n##_bw;
#define C(n) fwc[#n] = &Device::n##_fw; bwc[#n] = &Device::n##_bw;
#define S(n) fws[#n] = &Device::n##_fw;
#define B(n) fw2[#n] = &Device::n##_fw; bw2[#n] = &Device::n##_bw;
static void init() {
  fw1["negate"] = &Device::negate_fw;
  U(abs) U(sqrt) U(exp) U(log) U(tanh) U(sigmoid) U(softplus) U(sin) U(cos) U(tan)
  C(add_const) C(subtract_const_r) C(subtract_const_l) C(multiply_const) C(divide_const_r)
  C(divide_const_l) C(pow_const_r) C(pow_const_l) C(prelu) C(elu)
  S(add_scalar) S(subtract_scalar_r) S(subtract_scalar_l) S(multiply_scalar) S(divide_scalar_r)
  S(divide_scalar_l) S(pow_scalar_r) S(pow_scalar_l)
  B(add) B(subtract) B(multiply) B(divide) B(pow)
}

static float fl(const std::string &s) { return std::strtof(s.c_str(), nullptr); }
static std::vector<float> fls(const std::string &s) {
  std::vector<float> v; for (auto &t : split(s, ',')) v.push_back(fl(t)); return v;
}
static std::string pr(const std::vector<float> &v) {
  std::string out; char buf[64];
  for (size_t i = 0; i < v.size(); ++i) {
    std::snprintf(buf, sizeof buf, "%.9g", static_cast<double>(v[i]));
    if (i) out += ' ';
    out += buf;
  }
  return out;
}
static float one(const Tensor &t) { return t.to_vector().at(0); }

static std::string eval(Device &d, const std::vector<std::string> &t) {
  const std::string &k = t.at(1);
  auto T = [&](float v) { return d.new_tensor_by_constant(Shape(), v); };
  if (k == "f1") return pr({one((d.*fw1.at(t.at(2)))(T(fl(t.at(3)))))});
  if (k == "u") {
    Tensor x = T(fl(t.at(3))), gy = T(fl(t.at(4))), gx = T(0);
    Tensor y = (d.*fw1.at(t.at(2)))(x);
    (d.*bw1.at(t.at(2)))(x, y, gy, gx);
    return pr({one(y), one(gx)});
  }
  if (k == "fc") return pr({one((d.*fwc.at(t.at(2)))(T(fl(t.at(3))), fl(t.at(4))))});
  if (k == "c") {
    Tensor x = T(fl(t.at(3))), gy = T(fl(t.at(5))), gx = T(0);
    float kk = fl(t.at(4));
    Tensor y = (d.*fwc.at(t.at(2)))(x, kk);
    (d.*bwc.at(t.at(2)))(x, y, gy, kk, gx);
    return pr({one(y), one(gx)});
  }
  if (k == "s") return pr({one((d.*fws.at(t.at(2)))(T(fl(t.at(3))), T(fl(t.at(4)))))});
  if (k == "fb") return pr({one((d.*fw2.at(t.at(2)))(T(fl(t.at(3))), T(fl(t.at(4)))))});
  if (k == "b") {
    Tensor a = T(fl(t.at(3))), b = T(fl(t.at(4))), gy = T(fl(t.at(5))), ga = T(0), gb = T(0);
    Tensor y = (d.*fw2.at(t.at(2)))(a, b);
    (d.*bw2.at(t.at(2)))(a, b, y, gy, ga, gb);
    return pr({one(y), one(ga), one(gb)});
  }
  if (k == "fn") return pr({one(d.pown_fw(T(fl(t.at(2))), static_cast<std::int32_t>(std::stoll(t.at(3)))))});
  if (k == "n") {
    Tensor x = T(fl(t.at(2))), gy = T(fl(t.at(4))), gx = T(0);
    std::int32_t kk = static_cast<std::int32_t>(std::stoll(t.at(3)));
    Tensor y = d.pown_fw(x, kk);
    d.pown_bw(x, y, gy, kk, gx);
    return pr({one(y), one(gx)});
  }
  if (k == "lse" || k == "lsm" || k == "sm" || k == "sce") {
    std::vector<float> xs = fls(t.at(2));
    Tensor x = d.new_tensor_by_vector(Shape({static_cast<std::uint32_t>(xs.size())}), xs);
    if (k == "lse") return pr(functions::logsumexp(x, 0).to_vector());
    if (k == "lsm") return pr(functions::log_softmax(x, 0).to_vector());
    if (k == "sm") return pr(functions::softmax(x, 0).to_vector());
    std::vector<float> ts = fls(t.at(3));
    Tensor tt = d.new_tensor_by_vector(Shape({static_cast<std::uint32_t>(ts.size())}), ts);
    return pr(functions::softmax_cross_entropy(x, tt, 0).to_vector());
  }
  return "argerr";
}

int main() {
  init();
  devices::Naive naive;
  devices::Eigen eigen;
  std::string line;
  while (std::getline(std::cin, line)) {
    auto t = tokens(line);
    if (t.empty()) { std::cout << "\n"; continue; }
    std::string out;
    try {
      Device &d = (t.at(0) == "E") ? static_cast<Device &>(eigen) : static_cast<Device &>(naive);
      out = eval(d, t);
    } catch (Error &) { out = "err"; }
    catch (std::out_of_range &) { out = "argerr"; }
    catch (std::exception &) { out = "other-exception"; }
    std::cout << out << "\n";
  }
  return 0;
}
