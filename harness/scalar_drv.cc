// scalar_drv: evaluates the REAL elementwise entry points Device::<op>_fw / <op>_bw of
// devices::Naive (prefix N) and devices::Eigen (prefix E), and the softmax family of
// primitiv::functions, on the points read from stdin.  One case per line, one result line per
// case (values printed with %.9g, which round-trips float32; `err` for primitiv::Error).
//
//   <D> f1 <op> x            y = op_fw(x)
//   <D> u  <op> x gy         y = op_fw(x); gx = 0; op_bw(x, y, gy, gx)          -> y gx
//   <D> fc <op> x k          y = op_fw(x, k)
//   <D> c  <op> x k gy       y = op_fw(x, k); op_bw(x, y, gy, k, gx)            -> y gx
//   <D> s  <op> x k          y = op_scalar_fw(x, Tensor k)
//   <D> fb <op> a b          y = op_fw(a, b)
//   <D> b  <op> a b gy       y = op_fw(a, b); op_bw(a, b, y, gy, ga, gb)        -> y ga gb
//   <D> fn x k               y = pown_fw(x, k)
//   <D> n  x k gy            y = pown_fw(x, k); pown_bw(x, y, gy, k, gx)        -> y gx
//   <D> lse|lsm|sm x1,..,xn  functions::logsumexp / log_softmax / softmax along axis 0
//   <D> sce x1,..,xn t1,..,tn  functions::softmax_cross_entropy(x, t, 0)
// Elementwise rows: every tensor operand is a VECTOR of VLEN = 21 (= 16k+5) equal elements, so that
// devices::Eigen runs its packet body AND its scalar tail (a single-element tensor would only run
// Eigen's scalar path, i.e. libm against libm); the `k` operand of the `s` rows stays a scalar tensor
// (that is its contract); the softmax family has shape {n}.  The reported values are those of
// element 0.  All VLEN elements of one call are computed from the same operands: when some element is
// not bit-identical to element 0 the line continues with
//     !tail <j> <values of element j>       j = the element deviating most from element 0
// so that the engine judges both code paths against its oracle, and with the marker
//     !disagree
// when that deviation is beyond agreement up to rounding (different inf/NaN class, or more than
// 4 float32 ulps of max(1, |a|, |b|)).
#include <primitiv/primitiv.h>
#include <cmath>
#include <cstdio>
#include <cstdlib>
#include <cstring>
#include <map>
#include "pvh.h"
using namespace primitiv;
using namespace pvh;

typedef Tensor (Device::*Fw1)(const Tensor &);
typedef void (Device::*Bw1)(const Tensor &, const Tensor &, const Tensor &, Tensor &);
typedef Tensor (Device::*FwC)(const Tensor &, float);
typedef void (Device::*BwC)(const Tensor &, const Tensor &, const Tensor &, float, Tensor &);
typedef Tensor (Device::*Fw2)(const Tensor &, const Tensor &);
typedef void (Device::*Bw2)(const Tensor &, const Tensor &, const Tensor &, const Tensor &, Tensor &, Tensor &);

static std::map<std::string, Fw1> fw1;
static std::map<std::string, Bw1> bw1;
static std::map<std::string, FwC> fwc;
static std::map<std::string, BwC> bwc;
static std::map<std::string, Fw2> fws, fw2;
static std::map<std::string, Bw2> bw2;

#define U(n) fw1[#n] = &Device::n##_fw; bw1[#n] = &Device::n##_bw;
#define C(n) fwc[#n] = &Device::n##_fw; bwc[#n] = &Device::n##_bw;
#define S(n) fws[#n] = &Device::n##_fw;
#define B(n) fw2[#n] = &Device::n##_fw; bw2[#n] = &Device::n##_bw;
static void init() {
  fw1["negate"] = &Device::negate_fw;
  U(abs) U(sqrt) U(exp) U(log) U(tanh) U(sigmoid) U(softplus) U(sin) U(cos) U(tan)
  C(add_const) C(subtract_const_r) C(subtract_const_l) C(multiply_const) C(divide_const_r)
  C(divide_const_l) C(pow_const_r) C(pow_const_l) C(prelu) C(elu)
  S(add_scalar) S(subtract_scalar_r) S(subtract_scalar_l) S(multiply_scalar) S(divide_scalar_r)
  S(divide_scalar_l) S(pow_scalar_r) S(pow_scalar_l)
  B(add) B(subtract) B(multiply) B(divide) B(pow)
}

static float fl(const std::string &s) { return std::strtof(s.c_str(), nullptr); }
static std::vector<float> fls(const std::string &s) {
  std::vector<float> v; for (auto &t : split(s, ',')) v.push_back(fl(t)); return v;
}
static std::string pr(const std::vector<float> &v) {
  std::string out; char buf[64];
  for (size_t i = 0; i < v.size(); ++i) {
    std::snprintf(buf, sizeof buf, "%.9g", static_cast<double>(v[i]));
    if (i) out += ' ';
    out += buf;
  }
  return out;
}
static const std::uint32_t VLEN = 21;
static int cls(float v) { return v != v ? 0 : (std::isinf(v) ? (v > 0 ? 1 : 2) : 3); }
static double ulp32(double v) {
  v = std::fabs(v);
  if (v < std::ldexp(1.0, -126)) return std::ldexp(1.0, -149);
  int e; std::frexp(v, &e); return std::ldexp(1.0, e - 24);
}
// deviation of b from a in float32 ulps of max(1,|a|,|b|); a different inf/NaN class counts as infinite
static double dev_ulps(float a, float b) {
  if (cls(a) != cls(b)) return HUGE_VAL;
  if (cls(a) != 3) return 0.0;
  const double m = std::fmax(1.0, std::fmax(std::fabs((double)a), std::fabs((double)b)));
  return std::fabs((double)a - (double)b) / ulp32(m);
}
static bool same_bits(float a, float b) { return std::memcmp(&a, &b, sizeof a) == 0 || (a != a && b != b); }
// element 0 of every output tensor, plus (see the header) the most deviating element
static std::string rep(const std::vector<Tensor> &outs) {
  std::vector<std::vector<float>> cols;
  for (const Tensor &t : outs) cols.push_back(t.to_vector());
  std::vector<float> head;
  for (auto &c : cols) head.push_back(c.at(0));
  std::string line = pr(head);
  size_t worst = 0; double wdev = -1.0; bool identical = true;
  for (auto &c : cols)
    for (size_t j = 1; j < c.size(); ++j) {
      if (same_bits(c[0], c[j])) continue;
      identical = false;
      const double d = dev_ulps(c[0], c[j]);
      if (d > wdev) { wdev = d; worst = j; }
    }
  if (!identical) {
    std::vector<float> tail;
    for (auto &c : cols) tail.push_back(c.at(worst));
    line += " !tail " + std::to_string(worst) + " " + pr(tail);
    if (wdev > 4.0) line += " !disagree";
  }
  return line;
}

static std::string eval(Device &d, const std::vector<std::string> &t) {
  const std::string &k = t.at(1);
  auto T = [&](float v) { return d.new_tensor_by_constant(Shape({VLEN}), v); };
  auto K = [&](float v) { return d.new_tensor_by_constant(Shape(), v); };
  if (k == "f1") return rep({(d.*fw1.at(t.at(2)))(T(fl(t.at(3))))});
  if (k == "u") {
    Tensor x = T(fl(t.at(3))), gy = T(fl(t.at(4))), gx = T(0);
    Tensor y = (d.*fw1.at(t.at(2)))(x);
    (d.*bw1.at(t.at(2)))(x, y, gy, gx);
    return rep({y, gx});
  }
  if (k == "fc") return rep({(d.*fwc.at(t.at(2)))(T(fl(t.at(3))), fl(t.at(4)))});
  if (k == "c") {
    Tensor x = T(fl(t.at(3))), gy = T(fl(t.at(5))), gx = T(0);
    float kk = fl(t.at(4));
    Tensor y = (d.*fwc.at(t.at(2)))(x, kk);
    (d.*bwc.at(t.at(2)))(x, y, gy, kk, gx);
    return rep({y, gx});
  }
  if (k == "s") return rep({(d.*fws.at(t.at(2)))(T(fl(t.at(3))), K(fl(t.at(4))))});
  if (k == "fb") return rep({(d.*fw2.at(t.at(2)))(T(fl(t.at(3))), T(fl(t.at(4))))});
  if (k == "b") {
    Tensor a = T(fl(t.at(3))), b = T(fl(t.at(4))), gy = T(fl(t.at(5))), ga = T(0), gb = T(0);
    Tensor y = (d.*fw2.at(t.at(2)))(a, b);
    (d.*bw2.at(t.at(2)))(a, b, y, gy, ga, gb);
    return rep({y, ga, gb});
  }
  if (k == "fn") return rep({d.pown_fw(T(fl(t.at(2))), static_cast<std::int32_t>(std::stoll(t.at(3))))});
  if (k == "n") {
    Tensor x = T(fl(t.at(2))), gy = T(fl(t.at(4))), gx = T(0);
    std::int32_t kk = static_cast<std::int32_t>(std::stoll(t.at(3)));
    Tensor y = d.pown_fw(x, kk);
    d.pown_bw(x, y, gy, kk, gx);
    return rep({y, gx});
  }
  if (k == "lse" || k == "lsm" || k == "sm" || k == "sce") {
    std::vector<float> xs = fls(t.at(2));
    Tensor x = d.new_tensor_by_vector(Shape({static_cast<std::uint32_t>(xs.size())}), xs);
    if (k == "lse") return pr(functions::logsumexp(x, 0).to_vector());
    if (k == "lsm") return pr(functions::log_softmax(x, 0).to_vector());
    if (k == "sm") return pr(functions::softmax(x, 0).to_vector());
    std::vector<float> ts = fls(t.at(3));
    Tensor tt = d.new_tensor_by_vector(Shape({static_cast<std::uint32_t>(ts.size())}), ts);
    return pr(functions::softmax_cross_entropy(x, tt, 0).to_vector());
  }
  return "argerr";
}

int main() {
  init();
  devices::Naive naive;
  devices::Eigen eigen;
  std::string line;
  while (std::getline(std::cin, line)) {
    auto t = tokens(line);
    if (t.empty()) { std::cout << "\n"; continue; }
    std::string out;
    try {
      Device &d = (t.at(0) == "E") ? static_cast<Device &>(eigen) : static_cast<Device &>(naive);
      out = eval(d, t);
    } catch (Error &) { out = "err"; }
    catch (std::out_of_range &) { out = "argerr"; }
    catch (std::exception &) { out = "other-exception"; }
    std::cout << out << "\n";
  }
  return 0;
}
