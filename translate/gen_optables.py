#!/usr/bin/env python3
"""Translator (T) of the `tables` engine (property C04):
    <repo>/primitiv/core/{operator.h, operator_impl.h, operator_impl.cc, node_funcs.cc,
                          tensor_funcs.cc, device.cc, tensor.cc, basic_functions.h, arithmetic.h}
    ->  coq/Gen/OpTables.v   (+ the same facts as JSON in _work/gen/optables*.json)

The sources are read from `g++ -E` output (all macros expanded: REG/REGX, PRIMITIV_DECL_*,
FWD_SHAPE*, FORWARD, DEV_FW_*, CHECK_DEVICE, PRIMITIV_THROW_ERROR, UNUSED), restricted by the
line markers to the text that originates from the file of interest.  This script is ONLY a
parser: it writes the function bodies as small abstract syntax trees (types `ex`, `st`, `func`,
`opclass` of coq/Tables/OpSyntax.v).  Every classification (which operator a Node function
constructs, in which order it passes its node arguments, which Tensor function FORWARD(op)
calls, which shape rule a Device::*_fw applies ...) is computed IN COQ by coq/Tables/OpCheck.v
from these trees, and the theorems of Props/Properties_C04.v are re-checked against them.

Normalisation (so that harmless rewrites do not matter): whitespace, comments, redundant
parentheses, macro vs. expanded text, `a->m` = `(*a).m`, leading `::`, the namespace prefixes
`std::` and `primitiv::`, `const`/`&` in types, `Node`/`Tensor`/`Var`/`type_traits::Identity<Var>`
-> `X`, `static_cast<void>(x);` statements (UNUSED) dropped, `static_cast<T &>(e)` -> `e`,
a block that contains a `throw` -> `SThrow` (message text never matters), numeric literals
re-printed canonically.  Anything the parser does not understand becomes `SOther "<text>"` /
`Other "<text>"`, which no checker accepts (fail-closed), never a silent drop.
"""
import json
import os
import re
import subprocess
import sys

ROOT = "/verif"
OUT_V = os.path.join(ROOT, "coq", "Gen", "OpTables.v")
STUB = os.path.join(ROOT, "translate", "stub_include")


def repo():
    return os.environ.get("PV_REPO", "/repo")


def out_json(cache=False):
    sfx = ("" if repo() == "/repo" else "-scratch") + ("-cache" if cache else "")
    return os.path.join(ROOT, "_work", "gen", "optables%s.json" % sfx)


class Untranslatable(Exception):
    pass


# --------------------------------------------------------------------------- preprocessing

def preprocess(path, cache=False):
    cmd = ["g++", "-std=c++11", "-E", "-I" + repo(), "-I" + STUB]
    if cache:
        cmd.append("-DPRIMITIV_USE_CACHE")
    cmd.append(path)
    p = subprocess.run(cmd, stdout=subprocess.PIPE, stderr=subprocess.PIPE, text=True, timeout=120)
    if p.returncode != 0:
        raise Untranslatable("g++ -E failed on %s: %s" % (path, p.stderr[-400:]))
    return p.stdout


def origin_text(pp, suffixes):
    """The part of preprocessed text `pp` whose line markers name a file ending in one of
    `suffixes` (dict suffix -> list of lines)."""
    out = {s: [] for s in suffixes}
    cur = None
    for line in pp.splitlines():
        m = re.match(r'^# \d+ "([^"]*)"', line)
        if m:
            f = m.group(1)
            cur = None
            for s in suffixes:
                if f.endswith(s):
                    cur = s
            continue
        if cur is not None:
            out[cur].append(line)
    return {s: "\n".join(v) for s, v in out.items()}


# --------------------------------------------------------------------------- tokens

TOK = re.compile(r"""
    \s+ | //[^\n]* | /\*.*?\*/
  | "(?:\\.|[^"\\])*" | '(?:\\.|[^'\\])*'
  | 0[xX][0-9a-fA-F]+[uUlL]*
  | (?:\d+\.\d*|\.\d+|\d+)(?:[eE][+-]?\d+)?[uUlLfF]*
  | [A-Za-z_]\w*
  | :: | -> | <<= | << | <= | >= | == | != | && | \|\| | \+\+ | -- | \+= | -= | \*= | /=
  | [{}()\[\];,<>=+\-*/%&|^!~?:.\#]
""", re.X | re.S)


def tokenize(text):
    toks, i = [], 0
    while i < len(text):
        m = TOK.match(text, i)
        if not m:
            raise Untranslatable("cannot tokenize near: %r" % text[i:i + 40])
        t = m.group(0)
        i = m.end()
        if t[0].isspace() or t.startswith("//") or t.startswith("/*"):
            continue
        toks.append(t)
    return toks


def is_ident(t):
    return bool(re.match(r"^[A-Za-z_]\w*$", t)) and t not in KEYWORDS


KEYWORDS = {"const", "return", "if", "else", "for", "while", "new", "throw", "static_cast", "this",
            "template", "typename", "class", "struct", "public", "private", "protected", "namespace",
            "using", "inline", "static", "explicit", "virtual", "override", "mutable", "operator",
            "constexpr", "unsigned", "do", "switch", "case", "break", "continue", "delete", "try", "catch",
            "noexcept", "friend", "typedef", "enum", "sizeof", "extern", "default"}


def is_number(t):
    return bool(re.match(r"^(0[xX][0-9a-fA-F]+|\d|\.\d)", t))


def norm_number(t):
    s = re.sub(r"[uUlLfF]+$", "", t) if not t.lower().startswith("0x") else re.sub(r"[uUlL]+$", "", t)
    try:
        if s.lower().startswith("0x"):
            return str(int(s, 16))
        if re.match(r"^\d+$", s):
            return str(int(s))
        return repr(float(s))
    except ValueError:
        return t


def match_close(toks, i, o, c):
    """index of the token closing the bracket opened at toks[i] (== o)."""
    d = 0
    for j in range(i, len(toks)):
        if toks[j] == o:
            d += 1
        elif toks[j] == c:
            d -= 1
            if d == 0:
                return j
    raise Untranslatable("unbalanced %s near %s" % (o, " ".join(toks[i:i + 12])))


TYPEISH = {"const", "::", "*", "&", ",", "unsigned", "typename"}


def template_close(toks, i):
    """toks[i] == '<': if this opens a template-argument list (only type-like tokens up to the
    matching '>'), return the index of the closing '>', else None."""
    d = 0
    j = i
    while j < len(toks):
        t = toks[j]
        if t == "<":
            d += 1
        elif t == ">":
            d -= 1
            if d == 0:
                return j
        elif not (is_ident(t) or t in TYPEISH or is_number(t)):
            return None
        j += 1
        if j - i > 40:
            return None
    return None


def norm_qname(parts):
    """['::'?, a, '::', b, ...] (template args already folded into the idents) -> 'a::b'."""
    names = [p for p in parts if p != "::"]
    while names and names[0] in ("std", "primitiv"):
        names = names[1:]
    return "::".join(names)


def norm_type(toks):
    """canonical text of a type."""
    ts = [t for t in toks if t not in ("const", "inline", "static", "explicit", "virtual", "mutable", "typename", "constexpr")]
    s = "".join(("::" if t == "::" else t) for t in ts)
    s = s.replace("std::", "").replace("primitiv::", "")
    if s.startswith("::"):
        s = s[2:]
    s = s.replace("type_traits::Identity<Var>", "X")
    s = re.sub(r"\b(Node|Tensor|Var)\b", "X", s) if not s.startswith("Parameter") else s
    s = s.replace("uint32_t", "u32").replace("int32_t", "i32").replace("uint64_t", "u64").replace("size_t", "usize")
    s = s.replace("vector<", "vec<")
    if s.endswith("&") and not s.startswith(("Device", "Parameter", "Graph")):
        s = s[:-1]
    return s


# --------------------------------------------------------------------------- expressions

class P:
    """recursive-descent parser over a token list; builds JSON-like trees."""

    def __init__(self, toks):
        self.t = toks
        self.i = 0

    def peek(self, k=0):
        return self.t[self.i + k] if self.i + k < len(self.t) else None

    def eat(self, x=None):
        t = self.peek()
        if t is None or (x is not None and t != x):
            raise Untranslatable("expected %r, found %r near %s" % (x, t, " ".join(self.t[max(0, self.i - 6):self.i + 6])))
        self.i += 1
        return t

    # ---- expressions
    BIN = [["||"], ["&&"], ["|"], ["^"], ["&"], ["==", "!="], ["<", ">", "<=", ">="], ["<<"], ["+", "-"], ["*", "/", "%"]]

    def expr(self):
        c = self.binary(0)
        if self.peek() == "?":
            self.eat("?")
            a = self.expr()
            self.eat(":")
            b = self.expr()
            return ["Cond", c, a, b]
        return c

    def binary(self, lvl):
        if lvl == len(self.BIN):
            return self.unary()
        a = self.binary(lvl + 1)
        while self.peek() in self.BIN[lvl]:
            o = self.eat()
            b = self.binary(lvl + 1)
            a = ["Bin", o, a, b]
        return a

    def unary(self):
        t = self.peek()
        if t == "*":
            self.eat()
            return ["Deref", self.unary()]
        if t in ("-", "!", "&", "+", "~", "++", "--"):
            self.eat()
            return ["Un", t, self.unary()]
        return self.postfix(self.primary())

    def args(self, close):
        out = []
        if self.peek() == close:
            self.eat(close)
            return out
        while True:
            out.append(self.expr())
            if self.peek() == ",":
                self.eat(",")
                continue
            self.eat(close)
            return out

    def qname(self):
        parts = []
        if self.peek() == "::":
            self.eat()
        while True:
            t = self.peek()
            if t is None or not is_ident(t):
                raise Untranslatable("identifier expected, found %r" % t)
            self.eat()
            name = t
            if self.peek() == "<":
                c = template_close(self.t, self.i)
                if c is not None and (c + 1 < len(self.t)) and (self.t[c + 1] in ("(", "{", "::") or is_ident(self.t[c + 1])):
                    name += "<" + norm_type(self.t[self.i + 1:c]) + ">"
                    self.i = c + 1
            parts.append(name)
            if self.peek() == "::":
                self.eat()
                continue
            break
        return norm_qname(parts)

    def primary(self):
        t = self.peek()
        if t == "(":
            self.eat("(")
            e = self.expr()
            self.eat(")")
            return e
        if t == "{":
            self.eat("{")
            return ["Brace", self.args("}")]
        if t is not None and (is_number(t) or t[0] in "\"'"):
            self.eat()
            return ["Lit", norm_number(t) if is_number(t) else t]
        if t == "this":
            self.eat()
            return ["Id", "this"]
        if t == "new":
            self.eat()
            n = self.qname()
            a = []
            if self.peek() == "(":
                self.eat("(")
                a = self.args(")")
            return ["New", n, a]
        if t == "static_cast":
            self.eat()
            self.eat("<")
            c = match_close(self.t, self.i - 1, "<", ">")
            ty = self.t[self.i:c]
            self.i = c + 1
            self.eat("(")
            e = self.expr()
            self.eat(")")
            if ty and ty[-1] == "&":
                return e
            return ["Call", "static_cast<%s>" % norm_type(ty), [e]]
        n = self.qname()
        return ["Id", n]

    def postfix(self, e):
        while True:
            t = self.peek()
            if t == "(":
                self.eat("(")
                a = self.args(")")
                if e[0] == "Id":
                    e = ["Call", e[1], a]
                else:
                    e = ["Call", "<apply>", [e] + a]
            elif t == "{" and e[0] == "Id" and ("<" in e[1] or e[1] in ("Shape",)):
                self.eat("{")
                e = ["Call", e[1], self.args("}")]
            elif t == "[":
                self.eat("[")
                ix = self.expr()
                self.eat("]")
                e = ["Idx", e, ix]
            elif t in (".", "->"):
                self.eat()
                recv = ["Deref", e] if t == "->" else e
                m = self.eat()
                if not is_ident(m):
                    raise Untranslatable("member name expected, found %r" % m)
                if self.peek() == "(":
                    self.eat("(")
                    e = ["Meth", recv, m, self.args(")")]
                else:
                    e = ["Meth", recv, "." + m, []]
            elif t in ("++", "--"):
                self.eat()
                e = ["Un", "post" + t, e]
            else:
                return e

    # ---- statements
    def is_decl(self):
        """a declaration starts here?  [const] qualified-type [*&]* ident followed by = ( { ; [ ,"""
        j = self.i
        t = self.t
        n = len(t)
        while j < n and t[j] in ("const", "unsigned", "mutable", "static"):
            j += 1
        if j < n and t[j] == "::":
            j += 1
        if j >= n or not is_ident(t[j]):
            return None
        while True:
            if j >= n or not is_ident(t[j]):
                return None
            j += 1
            if j < n and t[j] == "<":
                c = template_close(t, j)
                if c is None:
                    return None
                j = c + 1
            if j < n and t[j] == "::":
                j += 1
                continue
            break
        while j < n and t[j] in ("const", "*", "&"):
            j += 1
        if j < n and is_ident(t[j]) and j + 1 < n and t[j + 1] in ("=", "(", "{", ";", "[", ","):
            return j
        return None

    def stmt(self):
        """returns a LIST of statements."""
        t = self.peek()
        if t == ";":
            self.eat()
            return []
        if t == "{":
            c = match_close(self.t, self.i, "{", "}")
            inner = self.t[self.i + 1:c]
            self.i = c + 1
            d = 0
            for u in inner:     # a `throw` directly in this block (PRIMITIV_THROW_ERROR): the block is a throw
                if u in "{":
                    d += 1
                elif u == "}":
                    d -= 1
                elif u == "throw" and d == 0:
                    return [["SThrow"]]
            return P(inner).stmts()
        if t == "if":
            self.eat()
            self.eat("(")
            c = self.expr()
            self.eat(")")
            th = self.stmt()
            el = []
            if self.peek() == "else":
                self.eat()
                el = self.stmt()
            return [["SIf", c, th, el]]
        if t == "for":
            self.eat()
            o = self.i
            c = match_close(self.t, o, "(", ")")
            head = self.t[o + 1:c]
            self.i = c + 1
            body = self.stmt()
            return [self.for_stmt(head, body)]
        if t == "return":
            self.eat()
            if self.peek() == ";":
                self.eat()
                return [["SRetVoid"]]
            e = self.expr()
            self.eat(";")
            return [["SRet", e]]
        if t == "throw":
            while self.peek() != ";":
                self.eat()
            self.eat(";")
            return [["SThrow"]]
        d = self.is_decl()
        if d is not None:
            ty = norm_type(self.t[self.i:d])
            self.i = d
            name = self.eat()
            nx = self.peek()
            if nx == ";":
                self.eat()
                return [["SDecl", ty, name, None]]
            if nx == "=":
                self.eat()
                e = self.expr()
                self.eat(";")
                return [["SDecl", ty, name, e]]
            if nx == "(":
                self.eat("(")
                a = self.args(")")
                self.eat(";")
                return [["SDecl", ty, name, ["Call", ty, a]]]
            if nx == "{":
                self.eat("{")
                a = self.args("}")
                self.eat(";")
                return [["SDecl", ty, name, ["Call", ty, a]]]
            raise Untranslatable("unsupported declarator after %s" % name)
        e = self.expr()
        nx = self.peek()
        if nx in ("=", "+=", "-=", "*=", "/="):
            self.eat()
            r = self.expr()
            self.eat(";")
            if nx == "=":
                return [["SAssign", e, r]]
            return [["SOpAssign", nx, e, r]]
        self.eat(";")
        if e[0] == "Call" and e[1] == "static_cast<void>":
            return []
        return [["SExp", e]]

    def for_stmt(self, head, body):
        raw = " ".join(head)
        d = 0
        semis = []
        colon = None
        for k, t in enumerate(head):
            if t in "([{":
                d += 1
            elif t in ")]}":
                d -= 1
            elif d == 0 and t == ";":
                semis.append(k)
            elif d == 0 and t == ":" and colon is None:
                colon = k
        try:
            if len(semis) == 2:
                init, cond, step = head[:semis[0]], head[semis[0] + 1:semis[1]], head[semis[1] + 1:]
                pi = P(init + [";"])
                dd = pi.is_decl()
                if dd is None:
                    raise Untranslatable("for-init")
                pi.i = dd
                v = pi.eat()
                pi.eat("=")
                lo = pi.expr()
                pc = P(cond)
                ce = pc.expr()
                if not (ce[0] == "Bin" and ce[1] == "<" and ce[2] == ["Id", v]):
                    raise Untranslatable("for-cond")
                if step not in (["++", v], [v, "++"]):
                    raise Untranslatable("for-step")
                return ["SFor", v, lo, ce[3], body]
            if colon is not None and not semis:
                decl, rng = head[:colon], head[colon + 1:]
                v = decl[-1]
                return ["SForEach", v, P(rng).expr(), body]
        except Untranslatable:
            pass
        return ["SOther", "for(" + raw + ")"]

    def stmts(self):
        out = []
        while self.peek() is not None:
            start = self.i
            try:
                out += self.stmt()
            except Untranslatable:
                # resynchronise at the next ';' or balanced block; keep the text (fail-closed)
                j = start
                d = 0
                while j < len(self.t):
                    t = self.t[j]
                    if t in "({[":
                        d += 1
                    elif t in ")}]":
                        d -= 1
                        if d == 0 and t == "}":
                            j += 1
                            break
                    elif t == ";" and d == 0:
                        j += 1
                        break
                    j += 1
                out.append(["SOther", " ".join(self.t[start:j])])
                self.i = max(j, start + 1)
        return out


# --------------------------------------------------------------------------- declarations

def parse_params(toks):
    """parameter list tokens -> [[type, name], ...]"""
    out = []
    if not toks or toks == ["void"]:
        return out
    d = 0
    cur = []
    parts = []
    for t in toks:
        if t in "(<[{":
            d += 1
        elif t in ")>]}":
            d -= 1
        if t == "," and d == 0:
            parts.append(cur)
            cur = []
        else:
            cur.append(t)
    parts.append(cur)
    for p in parts:
        if "=" in p:
            p = p[:p.index("=")]
        while p and p[-1] in ("]", "["):
            p = p[:-1]
        if p and is_ident(p[-1]) and len(p) > 1:
            out.append([norm_type(p[:-1]), p[-1]])
        else:
            out.append([norm_type(p), ""])
    return out


def parse_header(head):
    """tokens of a function header (up to, not including, the body '{' or ';').
    Returns dict(name, qual, ret, params, inits) or None when this is not a function."""
    # strip template<...> prefixes
    h = list(head)
    while h and h[0] == "template":
        c = match_close(h, 1, "<", ">")
        h = h[c + 1:]
    # the parameter list: first '(' at depth 0 preceded by an identifier / '>' / operator symbol
    d = 0
    po = None
    for k, t in enumerate(h):
        if t == "(" and d == 0 and k > 0:
            po = k
            break
        if t in "<[":
            d += 1
        elif t in ">]":
            d -= 1
    if po is None:
        return None
    pc = match_close(h, po, "(", ")")
    pre = h[:po]
    post = h[pc + 1:]
    # name = trailing qualified id of `pre` (possibly `operator+`)
    if "operator" in pre:
        k = pre.index("operator")
        name_toks = ["operator" + "".join(pre[k + 1:])]
        j = k
    else:
        j = len(pre)
        # fold a trailing template argument list into the name
        name_toks = []
        if j > 0 and pre[j - 1] == ">":
            d = 0
            k = j - 1
            while k >= 0:
                if pre[k] == ">":
                    d += 1
                elif pre[k] == "<":
                    d -= 1
                    if d == 0:
                        break
                k -= 1
            targ = "<" + norm_type(pre[k + 1:j - 1]) + ">"
            j = k
        else:
            targ = ""
        if j == 0 or not (is_ident(pre[j - 1]) or pre[j - 1].startswith("~")):
            return None
        name_toks = [pre[j - 1] + targ]
        j -= 1
    quals = []
    while j >= 2 and pre[j - 1] == "::" and is_ident(pre[j - 2]):
        quals.insert(0, pre[j - 2])
        j -= 2
    ret = norm_type(pre[:j])
    inits = []
    if ":" in post:
        k = post.index(":")
        it = post[k + 1:]
        p = P(it)
        while p.peek() is not None:
            m = p.eat()
            o = p.eat()
            a = p.args(")" if o == "(" else "}")
            inits.append([m, a[0] if len(a) == 1 else ["Brace", a]])
            if p.peek() == ",":
                p.eat(",")
    return {"name": name_toks[0], "qual": "::".join(quals), "ret": ret,
            "params": parse_params(h[po + 1:pc]), "inits": inits}


def scan_scope(toks, ns, funcs, classes, in_class=None):
    """walk declarations of one scope (namespace or class body)."""
    i = 0
    n = len(toks)
    while i < n:
        t = toks[i]
        if t in (";",):
            i += 1
            continue
        if in_class is not None and t in ("public", "private", "protected") and i + 1 < n and toks[i + 1] == ":":
            i += 2
            continue
        if t == "namespace":
            j = i + 1
            name = ""
            if toks[j] != "{":
                name = toks[j]
                j += 1
            if toks[j] != "{":      # namespace alias
                while toks[i] != ";":
                    i += 1
                continue
            c = match_close(toks, j, "{", "}")
            scan_scope(toks[j + 1:c], ns + ([name] if name else ["<anon>"]), funcs, classes)
            i = c + 1
            continue
        # gather up to ';' or the body '{' at depth 0
        d = 0
        j = i
        body = None
        while j < n:
            u = toks[j]
            if u in "([":
                d += 1
            elif u in ")]":
                d -= 1
            elif u == "{" and d == 0:
                # brace initialiser inside a ctor-init list?  `: a{b}` -- not used in these sources
                body = j
                break
            elif u == ";" and d == 0:
                break
            j += 1
        head = toks[i:j]
        if body is None:
            # declaration without body: a field (inside a class) or something to skip
            if in_class is not None and head and "(" not in head and head[0] not in ("using", "friend", "typedef", "static"):
                in_class["fields"] += parse_fields(head)
            i = j + 1
            continue
        c = match_close(toks, body, "{", "}")
        if head and head[0] in ("class", "struct") or (len(head) > 1 and head[0] == "template" and "class" in head[:8] and "(" not in head):
            k = head.index("class") if "class" in head else head.index("struct")
            cname = head[k + 1] if k + 1 < len(head) else ""
            bases = [x for x in head[k + 2:] if is_ident(x)]
            cl = {"name": cname, "ns": "::".join(x for x in ns if x not in ("primitiv",)), "bases": bases,
                  "fields": [], "methods": [], "ctors": []}
            if in_class is None:
                scan_scope(toks[body + 1:c], ns, funcs_sink(cl), classes, in_class=cl)
                classes.append(cl)
            i = c + 1
            continue
        hd = None
        if head and head[0] not in ("using", "typedef", "enum", "extern"):
            try:
                hd = parse_header(head)
            except Untranslatable as e:
                # a function whose header is outside the fragment is NOT dropped: it becomes a row that the
                # checkers reject (main() puts it into op_methods_cache_delta, which must be exactly the one
                # reviewed method: theorem cache_variant_ok fails and names it)
                hd = None
                UNPARSED.append({"ns": "::".join(x for x in ns if x != "primitiv"), "qual": in_class["name"] if in_class is not None else "",
                                 "name": "<unparsed function header: %s>" % " ".join(head)[:200], "ret": "", "params": [], "inits": [],
                                 "body": [["SOther", "unparsed header (%s)" % str(e)[:120]]]})
        if hd is not None:
            try:
                stm = P(toks[body + 1:c]).stmts()
            except Untranslatable as e:
                stm = [["SOther", " ".join(toks[body + 1:c])[:300]]]
            f = {"ns": "::".join(x for x in ns if x != "primitiv"), "qual": hd["qual"], "name": hd["name"],
                 "ret": hd["ret"], "params": hd["params"], "inits": hd["inits"], "body": stm}
            if in_class is not None:
                f["qual"] = in_class["name"]
            funcs.append(f)
        i = c + 1


class funcs_sink(list):
    """functions found inside a class body are attached to the class."""

    def __init__(self, cl):
        super().__init__()
        self.cl = cl

    def append(self, f):
        if f["name"] == self.cl["name"]:
            self.cl["ctors"].append(f)
        else:
            self.cl["methods"].append(f)


def parse_fields(head):
    """`std::uint32_t a_, b_` / `Device &device_` / `mutable Tensor t_` -> [[type, name], ...]"""
    d = 0
    parts, cur = [], []
    for t in head:
        if t in "<(":
            d += 1
        elif t in ">)":
            d -= 1
        if t == "," and d == 0:
            parts.append(cur)
            cur = []
        else:
            cur.append(t)
    parts.append(cur)
    first = parts[0]
    if len(first) < 2 or not is_ident(first[-1]):
        return []
    ty = first[:-1]
    base = [t for t in ty if t not in ("*", "&")]
    out = [[norm_type(ty), first[-1]]]
    for p in parts[1:]:
        if p and is_ident(p[-1]):
            out.append([norm_type(base + p[:-1]), p[-1]])
    return out


# --------------------------------------------------------------------------- reading the repo

UNPARSED = []   # functions with a body whose header parse_header() rejected, collected by scan_scope during read_all


def read_all(cache=False):
    del UNPARSED[:]
    core = os.path.join(repo(), "primitiv", "core")
    for f in ("operator.h", "operator_impl.h", "operator_impl.cc", "node_funcs.cc", "tensor_funcs.cc", "device.cc",
              "tensor.cc", "basic_functions.h", "arithmetic.h"):
        if not os.path.exists(os.path.join(core, f)):
            raise Untranslatable("missing source file primitiv/core/" + f)
    tabs = {}

    def scan(text):
        funcs, classes = [], []
        scan_scope(tokenize(text), [], funcs, classes)
        return funcs, classes

    pp = preprocess(os.path.join(core, "operator_impl.cc"), cache)
    parts = origin_text(pp, ["core/operator_impl.h", "core/operator_impl.cc", "core/operator.h", "core/arithmetic.h"])
    _, classes = scan(parts["core/operator_impl.h"])
    opfuncs, _ = scan(parts["core/operator_impl.cc"])
    _, opbase = scan(parts["core/operator.h"])
    arith, _ = scan(parts["core/arithmetic.h"])
    consts = {}
    for m in re.finditer(r"static\s+constexpr\s+std::uint32_t\s+(\w+)\s*=\s*(0x[0-9a-fA-F]+|\d+)\s*;", parts["core/operator.h"]):
        consts[m.group(1)] = int(m.group(2), 0)
    classes = [c for c in classes if "Operator" in c["bases"]]
    byname = {c["name"]: c for c in classes}
    methods = []
    for f in opfuncs:
        if f["qual"] in byname:
            if f["name"] == f["qual"]:
                byname[f["qual"]]["ctors"].append(f)
            elif f["name"] in ("forward_shape", "forward", "get_inner_values"):
                methods.append(f)
    for c in classes:   # constructors declared in the class but defined out of line have no body: drop the declaration
        pass
    tabs["op_classes"] = classes
    tabs["op_methods"] = methods
    tabs["operator_consts"] = consts
    tabs["arith_ops"] = [f for f in arith if f["name"].startswith("operator") and f["ret"] == "X"]

    pp = preprocess(os.path.join(core, "node_funcs.cc"), cache)
    parts = origin_text(pp, ["core/node_funcs.cc", "core/basic_functions.h"])
    nf, _ = scan(parts["core/node_funcs.cc"])
    bf, _ = scan(parts["core/basic_functions.h"])
    tabs["node_funcs"] = [f for f in nf if f["ns"].startswith("functions") or f["ns"] == "<anon>"]
    tabs["template_specs"] = [f for f in bf if f["ns"].startswith("functions") and
                              (f["name"].endswith("<X>") or any(p[0] == "Device&" for p in f["params"]))]
    # explicit specialisations lose Node/Tensor in norm_type: recover from the raw text
    tabs["template_specs"] = respecialise(tabs["template_specs"], parts["core/basic_functions.h"])

    pp = preprocess(os.path.join(core, "tensor_funcs.cc"), cache)
    parts = origin_text(pp, ["core/tensor_funcs.cc"])
    tf, _ = scan(parts["core/tensor_funcs.cc"])
    tabs["tensor_funcs"] = [f for f in tf if f["ns"].startswith("functions") or f["ns"] == "<anon>"]

    pp = preprocess(os.path.join(core, "device.cc"), cache)
    parts = origin_text(pp, ["core/device.cc"])
    df, _ = scan(parts["core/device.cc"])
    tabs["device_funcs"] = [f for f in df if f["qual"] == "Device" and f["ret"] == "X"]

    pp = preprocess(os.path.join(core, "tensor.cc"), cache)
    parts = origin_text(pp, ["core/tensor.cc"])
    tm, _ = scan(parts["core/tensor.cc"])
    tabs["tensor_methods"] = [f for f in tm if f["qual"] == "Tensor" and f["ret"] == "X" and f["name"] in ("reshape", "flatten")]
    return tabs


def respecialise(fs, raw):
    """`input<Tensor>` and `input<Node>` both normalise to `input<X>`; tell them apart by the
    order in the raw text (the return type token before the name)."""
    out = []
    seen = {}
    for f in fs:
        if f["name"].endswith("<X>"):
            base = f["name"][:-3]
            k = seen.get(base, 0)
            ms = list(re.finditer(r"\b(Tensor|Node)\s+%s\s*<\s*(Tensor|Node)\s*>\s*\(" % re.escape(base), raw))
            if k < len(ms):
                f = dict(f)
                f["name"] = "%s<%s>" % (base, ms[k].group(2))
            seen[base] = k + 1
        out.append(f)
    return out


# --------------------------------------------------------------------------- Gallina output

def q(s):
    return '"' + s.replace('"', '""') + '"'


def g_ex(e):
    k = e[0]
    if k == "Id":
        return "Id %s" % q(e[1])
    if k == "Lit":
        return "Lit %s" % q(e[1])
    if k == "Call":
        return "Call %s %s" % (q(e[1]), g_exl(e[2]))
    if k == "Meth":
        return "Meth (%s) %s %s" % (g_ex(e[1]), q(e[2]), g_exl(e[3]))
    if k == "Idx":
        return "Idx (%s) (%s)" % (g_ex(e[1]), g_ex(e[2]))
    if k == "Deref":
        return "Deref (%s)" % g_ex(e[1])
    if k == "Un":
        return "Un %s (%s)" % (q(e[1]), g_ex(e[2]))
    if k == "Bin":
        return "Bin %s (%s) (%s)" % (q(e[1]), g_ex(e[2]), g_ex(e[3]))
    if k == "Cond":
        return "Cond (%s) (%s) (%s)" % (g_ex(e[1]), g_ex(e[2]), g_ex(e[3]))
    if k == "Brace":
        return "Brace %s" % g_exl(e[1])
    if k == "New":
        return "New %s %s" % (q(e[1]), g_exl(e[2]))
    return "Other %s" % q(str(e))


def g_exl(l):
    return "[" + "; ".join(g_ex(x) for x in l) + "]"


def g_st(s, ind):
    k = s[0]
    if k == "SAssign":
        return "SAssign (%s) (%s)" % (g_ex(s[1]), g_ex(s[2]))
    if k == "SOpAssign":
        return "SOpAssign %s (%s) (%s)" % (q(s[1]), g_ex(s[2]), g_ex(s[3]))
    if k == "SExp":
        return "SExp (%s)" % g_ex(s[1])
    if k == "SDecl":
        return "SDecl %s %s (%s)" % (q(s[1]), q(s[2]), "None" if s[3] is None else "Some (%s)" % g_ex(s[3]))
    if k == "SRet":
        return "SRet (%s)" % g_ex(s[1])
    if k == "SRetVoid":
        return "SRetVoid"
    if k == "SThrow":
        return "SThrow"
    if k == "SIf":
        return "SIf (%s) %s %s" % (g_ex(s[1]), g_stl(s[2], ind + 2), g_stl(s[3], ind + 2))
    if k == "SFor":
        return "SFor %s (%s) (%s) %s" % (q(s[1]), g_ex(s[2]), g_ex(s[3]), g_stl(s[4], ind + 2))
    if k == "SForEach":
        return "SForEach %s (%s) %s" % (q(s[1]), g_ex(s[2]), g_stl(s[3], ind + 2))
    return "SOther %s" % q(s[1] if len(s) > 1 else "?")


def g_stl(l, ind=4):
    if not l:
        return "[]"
    sp = " " * ind
    return "[\n" + ";\n".join(sp + g_st(x, ind) for x in l) + "]"


def g_params(ps):
    return "[" + "; ".join("mkP %s %s" % (q(a), q(b)) for a, b in ps) + "]"


def g_func(f):
    return ("{| f_ns := %s; f_qual := %s; f_name := %s; f_ret := %s;\n     f_params := %s;\n     f_inits := [%s];\n     f_body := %s |}"
            % (q(f["ns"]), q(f["qual"]), q(f["name"]), q(f["ret"]), g_params(f["params"]),
               "; ".join("(%s, %s)" % (q(m), g_ex(e)) for m, e in f["inits"]), g_stl(f["body"], 6)))


def g_funcs(name, fs):
    return "Definition %s : list func := [\n  %s\n].\n" % (name, ";\n  ".join(g_func(f) for f in fs)) if fs else "Definition %s : list func := [].\n" % name


def g_class(c):
    return ("{| oc_name := %s; oc_fields := %s;\n     oc_ctors := [%s];\n     oc_methods := [%s] |}"
            % (q(c["name"]), g_params(c["fields"]),
               ";\n       ".join(g_func(f) for f in c["ctors"]),
               ";\n       ".join(g_func(f) for f in c["methods"] if f["name"] in ("num_arguments", "num_returns", "has_inner_values", "get_device", "get_inner_values"))))


HEADER = """(* GENERATED by translate/gen_optables.py from %s -- do not edit.
   Parsed bodies (g++ -E, macros expanded) of: the Operator subclasses of operator_impl.h,
   <Op>::forward_shape / forward / get_inner_values and out-of-line constructors of
   operator_impl.cc, the Node functions of node_funcs.cc, the Tensor functions of
   tensor_funcs.cc, the Tensor-returning Device methods of device.cc, Tensor::reshape/flatten
   of tensor.cc, the explicit <Tensor>/<Node> specialisations and Device& overloads of
   basic_functions.h, the arithmetic operators of arithmetic.h, Operator::ANY/NONZERO. *)
From Coq Require Import List String NArith.
From PV Require Import Tables.OpSyntax.
Import ListNotations.
Local Open Scope string_scope.

"""


def render(tabs):
    out = [HEADER % "primitiv/core/*.{h,cc}"]
    c = tabs["operator_consts"]
    out.append("Definition operator_ANY : N := %d%%N.\nDefinition operator_NONZERO : N := %d%%N.\n\n" % (c.get("ANY", 0), c.get("NONZERO", 0)))
    out.append("Definition op_classes : list opclass := [\n  %s\n].\n\n" % ";\n  ".join(g_class(x) for x in tabs["op_classes"]))
    for k in ("op_methods", "node_funcs", "tensor_funcs", "device_funcs", "tensor_methods", "template_specs", "arith_ops",
              "op_methods_cache_delta"):
        out.append(g_funcs(k, tabs.get(k, [])) + "\n")
    return "".join(out)


SPECIAL = ("Split", "BatchSplit", "SoftmaxCrossEntropy", "SparseSoftmaxCrossEntropy")
SPECIAL_T = (("functions", "split"), ("functions::batch", "split"), ("functions", "softmax_cross_entropy"),
             ("functions", "log_softmax"))


def render_reviewed(tabs):
    """coq/Tables/Reviewed.v: the bodies of the four operators whose Tensor function is a
    composite, as they were when a person last compared them (NOT regenerated by the check)."""
    ms = [f for f in tabs["op_methods"] if f["qual"] in SPECIAL and f["name"] in ("forward", "forward_shape")]
    ts = [f for f in tabs["tensor_funcs"] if (f["ns"], f["name"]) in SPECIAL_T]
    out = ["(* REVIEWED COPY (written once by `translate/gen_optables.py --emit-reviewed`, then read and\n"
           "   compared with the C++ by a person; NOT regenerated by ./check).  The obligation\n"
           "   special_rows_match_reviewed of Tables/OpCheck.v compares the regenerated bodies with these. *)\n"
           "From Coq Require Import List String.\nFrom PV Require Import Tables.OpSyntax.\nImport ListNotations.\n"
           "Local Open Scope string_scope.\n\n"]
    ns_ = [f for f in tabs["node_funcs"] if (f["ns"], f["name"]) in (("functions", "split"), ("functions::batch", "split"))]
    out.append(g_funcs("rv_methods", ms) + "\n")
    out.append(g_funcs("rv_tensor_funcs", ts) + "\n")
    out.append(g_funcs("rv_node_funcs", ns_) + "\n")
    out.append(g_funcs("rv_cache_delta", tabs.get("op_methods_cache_delta", [])) + "\n")
    return "".join(out)


def write_if_changed(path, content):
    try:
        if open(path).read() == content:
            return False
    except OSError:
        pass
    os.makedirs(os.path.dirname(path), exist_ok=True)
    with open(path, "w") as f:
        f.write(content)
    return True


EMPTY = {"op_methods_cache_delta": [], "op_classes": [], "op_methods": [], "node_funcs": [], "tensor_funcs": [], "device_funcs": [],
         "tensor_methods": [], "template_specs": [], "arith_ops": [], "operator_consts": {}}


def main(cache=False, write_v=True):
    """Regenerate coq/Gen/OpTables.v (and the JSON copy).  When the sources cannot be read the
    file is still written, with empty tables (the non-emptiness obligations of the theorems then
    fail), so that no stale table is ever checked."""
    err = None
    try:
        tabs = read_all(cache)
        unparsed = list(UNPARSED)
        if not cache:
            # methods whose body differs under -DPRIMITIV_USE_CACHE (a second preprocessor run)
            ctabs = read_all(True)
            plain = {(f["qual"], f["name"]): f for f in tabs["op_methods"]}
            tabs["op_methods_cache_delta"] = [f for f in ctabs["op_methods"] if plain.get((f["qual"], f["name"])) != f]
            other = [k for k in tabs if k not in ("op_methods", "op_methods_cache_delta") and tabs[k] != ctabs.get(k)]
            if other:   # any other table changing under the cache flag is reported as an unparsed method
                tabs["op_methods_cache_delta"].append({"ns": "", "qual": "", "name": "<tables differ: %s>" % ",".join(other),
                                                        "ret": "", "params": [], "inits": [], "body": [["SOther", "cache"]]})
        tabs.setdefault("op_methods_cache_delta", []).extend(unparsed)
    except Untranslatable as e:
        err = str(e)
        tabs = dict(EMPTY)
    if write_v:
        content = render(tabs)
        if err:
            content += "(* UNTRANSLATABLE: %s *)\n" % err.replace("*)", "* )")
        write_if_changed(OUT_V, content)
    os.makedirs(os.path.dirname(out_json(cache)), exist_ok=True)
    with open(out_json(cache), "w") as f:
        json.dump(tabs, f, indent=1)
    if err:
        raise Untranslatable(err)
    return OUT_V


if __name__ == "__main__":
    if "--emit-reviewed" in sys.argv:
        main(write_v=False)
        t = json.load(open(out_json(False)))
        open(os.path.join(ROOT, "coq", "Tables", "Reviewed.v"), "w").write(render_reviewed(t))
        print("wrote coq/Tables/Reviewed.v -- REVIEW IT against the C++ before committing")
        sys.exit(0)
    try:
        print(main(cache="--cache" in sys.argv, write_v="--no-v" not in sys.argv))
    except Untranslatable as e:
        print("untranslatable:", e)
        sys.exit(1)
