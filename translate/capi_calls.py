#!/usr/bin/env python3
"""Generates the per-function call stubs of harness/capi_drv.cc from the table written by
gen_capi.py (_work/gen/capi_table*.json): for every exported wrapper one C++ function that
builds VALID arguments (fixture objects created through the C API, small arrays, scalars chosen
by parameter name), replaces one pointer by NULL / one array element by NULL / one scalar by a
given bit pattern when the probe asks for it, and calls the wrapper.  Compiling the stubs against
the real headers also checks the parameter types recorded in the table against the prototypes.
Not a translator of the proof side (no `gen_` prefix: translate/regen.py does not run it)."""
import json
import os
import sys

CAP = 4096

# scalar defaults by parameter name (then by C type)
SCALAR_BY_NAME = {
    "dim": "0", "lower": "0", "upper": "1", "batch": "1", "m": "2", "i": "0", "size": "2",
    "seed": "1", "rng_seed": "1", "epoch": "1", "value": "1",
    "padding0": "0", "padding1": "0", "stride0": "1", "stride1": "1", "dilation0": "1", "dilation1": "1",
    "window0": "1", "window1": "1", "with_stats": "1", "enabled": "1",
    "k": "2", "a": "0.5f", "p": "0.5f", "rate": "0.5f", "mean": "0.0f", "sd": "1.0f", "mu": "0.0f", "beta": "1.0f",
    "eta": "0.1f", "eps": "1e-8f", "alpha": "0.9f", "beta1": "0.9f", "beta2": "0.999f", "rho": "0.95f",
    "momentum": "0.9f", "scale": "1.0f", "strength": "0.0f", "threshold": "0.0f",
}
# (function, parameter) -> C++ expression
OVERRIDE = {
    ("primitivApplyNodeBroadcast", "dim"): "2", ("primitivApplyTensorBroadcast", "dim"): "2",
    ("primitivApplyNodeBatchSplit", "n"): "1", ("primitivApplyTensorBatchSplit", "n"): "1",
    ("primitivApplyNodeSplit", "n"): "2", ("primitivApplyTensorSplit", "n"): "2",
    ("primitivEvaluateNodeAsFloat", "node"): "F.node_scalar()",
    ("primitivEvaluateTensorAsFloat", "tensor"): "F.tensor_scalar()",
    ("primitivAddParameterToModel", "param"): "F.param_fresh()",
    ("primitivAddParameterToModel", "name"): '"q"',
    ("primitivAddSubmodelToModel", "submodel"): "F.model_fresh()",
    ("primitivAddSubmodelToModel", "name"): '"s2"',
    ("primitivAddStatsToParameter", "name"): '"b"',
    ("primitivGetSubmodelFromModel", "names"): '"sub"',
    ("primitivGetParameterFromModel", "names"): '"p"',
    ("primitivGetOptimizerIntConfig", "key"): '"Optimizer.epoch"',
    ("primitivSetOptimizerIntConfig", "key"): '"Optimizer.epoch"',
    ("primitivGetOptimizerFloatConfig", "key"): '"Optimizer.lr_scale"',
    ("primitivSetOptimizerFloatConfig", "key"): '"Optimizer.lr_scale"',
    ("primitivSetOptimizerFloatConfig", "value"): "1.0f",
    ("primitivLoadParameter", "path"): "F.param_path.c_str()", ("primitivSaveParameter", "path"): "F.out_path.c_str()",
    ("primitivLoadModel", "path"): "F.model_path.c_str()", ("primitivSaveModel", "path"): "F.out_path.c_str()",
    ("primitivLoadOptimizer", "path"): "F.opt_path.c_str()", ("primitivSaveOptimizer", "path"): "F.out_path.c_str()",
    ("primitivInitializeParameterWithValues", "parameter"): "F.param_fresh()",
    ("primitivInitializeParameterWithInitializer", "parameter"): "F.param_fresh()",
}
ARRAYS = {   # const data arrays by parameter name: (C++ initialiser, length)
    "dims": ("{2u, 2u}", 2), "ids": ("{0u}", 1), "perm": ("{1u, 0u}", 2),
    "data": ("{1.f, 2.f, 3.f, 4.f}", 4), "value": ("{1.f, 2.f, 3.f, 4.f}", 4), "values": ("{1.f, 2.f, 3.f, 4.f}", 4),
}
OBJ = {"Shape": "F.shape()", "Device": "F.dev", "Graph": "F.g", "Node": "F.node()", "Tensor": "F.tensor()",
       "Parameter": "F.param()", "Model": "F.model()", "Optimizer": "F.opt()", "Initializer": "F.init()"}
FRESH = {"Shape": "F.fresh_shape()", "Device": "F.fresh_device()", "Graph": "F.fresh_graph()", "Node": "F.fresh_node()",
         "Tensor": "F.fresh_tensor()", "Parameter": "F.param_fresh()", "Model": "F.model_fresh()",
         "Optimizer": "F.fresh_opt()", "Initializer": "F.fresh_init()"}


def roles(fn):
    """role of each parameter from the events: out / buf / size / array / obj / pass / cstr / scalar"""
    r = {}
    for i, p in enumerate(fn["params"]):
        k = p["kind"]
        uses = [(u, x) for (q, u, x) in fn["events"] if q == i]
        if k == "PScalar":
            r[i] = "scalar"
        elif any(u == "UBuf" for u, x in uses):
            r[i] = "buf"
        elif any(u == "UDeref" and x == "size" for u, x in uses):
            r[i] = "size"
        elif p["len_param"] is not None or any(u == "UDeref" and x in ("range", "index") for u, x in uses):
            r[i] = "array"
        elif any(u == "UStore" for u, x in uses):
            r[i] = "out"
        elif k == "PCStr":
            r[i] = "cstr"
        elif k == "PObjPtr":
            r[i] = "obj"
        elif k == "PDataPtr" and p["const"]:
            r[i] = "array"       # raw data pointer handed to C++ (reset_by_array)
        else:
            r[i] = "unknown"
    return r


def elem_type(ctype):
    """type of `*p` for a pointer parameter type"""
    t = ctype.strip()
    assert t.endswith("*")
    return t[:-1].strip()


def gen_fn(fn):
    name = fn["name"]
    rl = roles(fn)
    L = ["static void call_%s(const Probe &P, Out &R) {" % name]
    args = []
    post = []
    lens = {}      # length parameter index -> value
    for i, p in enumerate(fn["params"]):
        if p["len_param"] is not None and rl[i] == "array":
            pass
    # arrays first (their lengths feed the length parameters)
    arr_len = {}
    for i, p in enumerate(fn["params"]):
        if rl[i] != "array":
            continue
        k = p["kind"]
        ov = OVERRIDE.get((name, p["name"]))
        if k == "PDataPtr":
            init, n = ARRAYS.get(p["name"], ("{1, 2, 3, 4}", 4))
            L.append("  static const %s arr%d[] = %s;" % (elem_type(p["ctype"]).replace("const ", ""), i, init))
            arr_len[i] = n
        elif k == "PCStrPtr":
            L.append("  const char *arr%d[2] = {%s, nullptr};" % (i, ov or '"p"'))
            L.append("  if (P.elem_at == %d) arr%d[0] = nullptr;" % (i, i))
            arr_len[i] = 1
        elif k == "PObjPtrPtr":
            et = elem_type(p["ctype"])          # e.g. `const primitivNode_t *const` or `primitivModel_t *`
            base = et.replace("*const", "*").strip()
            L.append("  %s arr%d[2] = {%s, %s};" % (base, i, OBJ[p["cls"]], OBJ[p["cls"]]))
            L.append("  if (P.elem_at == %d) arr%d[1] = nullptr;" % (i, i))
            arr_len[i] = 2
        if p["len_param"] is not None:
            lens[p["len_param"]] = arr_len[i]
    for i, p in enumerate(fn["params"]):
        k, ct, pn = p["kind"], p["ctype"], p["name"]
        ov = OVERRIDE.get((name, pn))
        null = "P.null_at == %d" % i
        role = rl[i]
        if role == "scalar":
            if i in lens:
                v = str(lens[i])
            elif ov:
                v = ov
            elif pn in SCALAR_BY_NAME:
                v = SCALAR_BY_NAME[pn]
                if ct == "float" and not v.endswith("f"):
                    v = v + ".0f" if "." not in v else v + "f"
                if ct != "float" and v.endswith("f"):
                    v = "1"
            else:
                v = "0.5f" if ct == "float" else "1"
            L.append("  %s a%d = (P.zero_at == %d) ? scalar_from_bits<%s>(P.zero_bits) : (%s)(%s);" % (ct, i, i, ct, ct, v))
        elif role == "obj":
            if ov:
                v = ov
            elif name.startswith("primitivDelete"):
                v = FRESH[p["cls"]]
            elif p["cls"] == "Shape" and pn == "new_shape":
                v = "F.shape4()"
            else:
                v = OBJ[p["cls"]]
            L.append("  %s a%d = (%s) ? nullptr : %s;" % (ct, i, null, v))
        elif role == "cstr":
            v = ov or {"name": '"a"', "format": '"dot"', "key": '"Optimizer.epoch"', "path": "F.out_path.c_str()"}.get(pn, '"x"')
            L.append("  %s a%d = (%s) ? nullptr : %s;" % (ct, i, null, v))
        elif role == "array":
            L.append("  %s a%d = (%s) ? nullptr : arr%d;" % (ct, i, null, i))
        elif role == "out":
            et = elem_type(ct)
            if k == "PObjPtrPtr":
                L.append("  %s out%d = nullptr;" % (et, i))
            else:
                L.append("  %s out%d; std::memset(&out%d, 0x5a, sizeof out%d);" % (et, i, i, i))
            L.append("  %s a%d = (%s) ? nullptr : &out%d;" % (ct, i, null, i))
        elif role == "buf":
            et = elem_type(ct)
            L.append("  static %s buf%d[%d]; std::memset(buf%d, 0x5a, sizeof buf%d);" % (et, i, CAP, i, i))
            L.append("  %s a%d = (%s) ? nullptr : buf%d;" % (ct, i, null, i))
        elif role == "size":
            L.append("  size_t sz%d = %d;" % (i, CAP))
            L.append("  %s a%d = (%s) ? nullptr : &sz%d;" % (ct, i, null, i))
            post.append("  R.size_written = (sz%d != %d); R.size_val = sz%d;" % (i, CAP, i))
        else:
            raise RuntimeError("%s: parameter %s has no role" % (name, pn))
        args.append("a%d" % i)
    L.append("  R.status = %s(%s);" % (name, ", ".join(args)))
    L += post
    L.append("}")
    return "\n".join(L)


def generate(table_json, out_path):
    js = json.load(open(table_json))
    parts = ["// GENERATED by translate/capi_calls.py from %s -- do not edit" % table_json]
    usable = []
    js["no_stub"] = {}     # wrappers the harness has no fixture / no argument recipe for (e.g. a new object class)
    for fn in js["functions"]:
        if fn.get("unreadable"):
            continue
        try:
            parts.append(gen_fn(fn))
            usable.append(fn)
        except (KeyError, RuntimeError, AssertionError) as e:
            js["no_stub"][fn["name"]] = ("no fixture object of class %s in harness/capi_drv.cc" % e) if isinstance(e, KeyError) else str(e)
    parts.append("static const Entry ENTRIES[] = {")
    for fn in usable:
        parts.append('  {"%s", call_%s, %d},' % (fn["name"], fn["name"], len(fn["params"])))
    parts.append("};")
    txt = "\n".join(parts) + "\n"
    os.makedirs(os.path.dirname(out_path), exist_ok=True)
    old = open(out_path).read() if os.path.exists(out_path) else None
    if old != txt:
        open(out_path, "w").write(txt)
    return js


if __name__ == "__main__":
    generate(sys.argv[1], sys.argv[2])
