#!/usr/bin/env python3
"""Regenerate coq/Gen/*.v from the CURRENT /repo tree (translators of DESIGN.md 2.2 T)."""
import importlib, os, sys
sys.path.insert(0, os.path.dirname(__file__))
ok = True
for name in sorted(f[:-3] for f in os.listdir(os.path.dirname(__file__)) if f.startswith("gen_") and f.endswith(".py")):
    try:
        importlib.import_module(name).main()
    except Exception as e:  # a translator that cannot read the source is reported by the check that needs it
        ok = False
        print("translator %s failed: %s" % (name, e))
sys.exit(0 if ok else 1)
