#!/usr/bin/env python3
"""Translator (T) for C08: regenerates coq/Gen/BackendPairs.v from
<repo>/primitiv/devices/naive/ops/*.cc and <repo>/primitiv/devices/eigen/ops/*.cc on every run.

For every kernel file that exists for both CPU backends it emits the NORMALISED source text of
the two files: comments and #include lines removed, all white space removed, the backend's own
names mapped to one spelling (Naive/naive/NAIVE and the primitiv class `Eigen::` / `eigen` /
`EIGEN` -> DEV/dev).  Nothing else is rewritten, so two normalised texts are equal exactly when
the two kernels are the same C++ statements.  coq/Backend/SameSource.v lists the kernels that
are CLAIMED to be shared (reviewed list) and proves `naive_text = eigen_text` for each of them
over this generated file; a kernel edited in one backend only breaks that theorem.

A file that cannot be read or normalised is emitted with the text "<unreadable: ...>" on one side,
which makes the theorem fail (never a crash).
"""
import glob
import os
import re
import sys

OUT = "/verif/coq/Gen/BackendPairs.v"


def repo():
    return os.environ.get("PV_REPO", "/repo")


def strip_comments(s):
    # string literals in these files never contain // or /*, so a simple scanner suffices;
    # it still respects double-quoted strings so that this assumption is not load-bearing
    out, i, n = [], 0, len(s)
    while i < n:
        c = s[i]
        if c == '"':
            j = i + 1
            while j < n and s[j] != '"':
                j += 2 if s[j] == '\\' else 1
            out.append(s[i:j + 1]); i = j + 1
        elif s.startswith("//", i):
            j = s.find("\n", i)
            i = n if j < 0 else j
        elif s.startswith("/*", i):
            j = s.find("*/", i + 2)
            i = n if j < 0 else j + 2
        else:
            out.append(c); i += 1
    return "".join(out)


def normalise(path, backend):
    try:
        s = open(path, encoding="utf-8").read()
    except Exception as e:  # noqa
        return "<unreadable: %s>" % e
    s = strip_comments(s)
    s = "\n".join(l for l in s.split("\n") if not l.lstrip().startswith("#include"))
    if backend == "naive":
        s = s.replace("Naive", "DEV").replace("naive", "dev").replace("NAIVE", "DEV")
    else:
        # `::Eigen::` (the Eigen LIBRARY) is kept distinct from the primitiv class `Eigen::`
        s = s.replace("::Eigen::", "::EIGENLIB::")
        s = s.replace("Eigen::", "DEV::").replace("eigen", "dev").replace("EIGEN", "DEV")
    s = re.sub(r"\s+", "", s)
    return s


def macro_text(path, name, backend):
    """normalised text of `#define NAME(...) body` (continuation lines joined) from a common.h"""
    try:
        src = strip_comments(open(path, encoding="utf-8").read())
    except Exception as e:  # noqa
        return "<unreadable: %s>" % e
    m = re.search(r"^[ \t]*#[ \t]*define[ \t]+" + re.escape(name) + r"\b((?:[^\n\\]|\\\n|\\.)*)$", src, re.M)
    if not m:
        return "<macro %s not defined>" % name
    body = m.group(1).replace("\\\n", " ")
    if len(re.findall(r"^[ \t]*#[ \t]*define[ \t]+" + re.escape(name) + r"\b", src, re.M)) != 1:
        return "<macro %s defined more than once>" % name
    if backend == "naive":
        body = body.replace("Naive", "DEV").replace("naive", "dev").replace("NAIVE", "DEV")
    else:
        body = body.replace("::Eigen::", "::EIGENLIB::").replace("Eigen::", "DEV::").replace("eigen", "dev").replace("EIGEN", "DEV")
    return name + re.sub(r"\s+", "", body)


def coq_string(s):
    # Coq string literal: only the double quote needs doubling; non-ASCII bytes are not expected
    if any(ord(c) > 126 or ord(c) < 32 for c in s):
        s = "".join(c if 32 <= ord(c) <= 126 else "?" for c in s)
    return '"' + s.replace('"', '""') + '"'


def generate():
    r = repo()
    nd, ed = os.path.join(r, "primitiv/devices/naive/ops"), os.path.join(r, "primitiv/devices/eigen/ops")
    names = sorted(set(os.path.basename(p)[:-3] for p in glob.glob(nd + "/*.cc")) |
                   set(os.path.basename(p)[:-3] for p in glob.glob(ed + "/*.cc")))
    rows, summary = [], {"kernels": 0, "same": [], "different": [], "one_backend_only": []}
    for k in names:
        pn, pe = os.path.join(nd, k + ".cc"), os.path.join(ed, k + ".cc")
        if not (os.path.exists(pn) and os.path.exists(pe)):
            summary["one_backend_only"].append(k)
            tn = normalise(pn, "naive") if os.path.exists(pn) else "<missing>"
            te = normalise(pe, "eigen") if os.path.exists(pe) else "<missing>"
        else:
            tn, te = normalise(pn, "naive"), normalise(pe, "eigen")
        summary["kernels"] += 1
        (summary["same"] if tn == te else summary["different"]).append(k)
        rows.append((k, tn, te))
    # the helper macros the shared kernels are written with (CDATA, MDATA, MAYBE_USED, REPEAT_OP) live in the
    # two backends' own common.h: their definitions are compared like kernels, under the names "macro:<NAME>"
    for mname in ("CDATA", "MDATA", "MAYBE_USED", "REPEAT_OP"):
        tn = macro_text(os.path.join(nd, "common.h"), mname, "naive")
        te = macro_text(os.path.join(ed, "common.h"), mname, "eigen")
        summary["kernels"] += 1
        (summary["same"] if tn == te else summary["different"]).append("macro:" + mname)
        rows.append(("macro:" + mname, tn, te))
    tmp = "%s.tmp.%d" % (OUT, os.getpid())
    with open(tmp, "w") as f:
        f.write("(* GENERATED by translate/gen_backend_pairs.py from %s -- do not edit *)\n" % "primitiv/devices/{naive,eigen}/ops/*.cc")
        f.write("From Coq Require Import String List.\nImport ListNotations.\nLocal Open Scope string_scope.\n\n")
        f.write("(* kernel name, normalised Naive source, normalised Eigen source *)\n")
        f.write("Definition pairs : list (string * (string * string)) := [\n")
        f.write(";\n".join("  (%s, (%s,\n   %s))" % (coq_string(k), coq_string(tn), coq_string(te)) for (k, tn, te) in rows))
        f.write("\n].\n")
    os.replace(tmp, OUT)
    return summary


main = generate


if __name__ == "__main__":
    s = generate()
    print("kernels=%d same=%d different=%d" % (s["kernels"], len(s["same"]), len(s["different"])))
    print("same:", " ".join(s["same"]))
    print("different:", " ".join(s["different"]))
    if s["one_backend_only"]:
        print("one backend only:", " ".join(s["one_backend_only"]))
