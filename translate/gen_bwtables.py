#!/usr/bin/env python3
"""Translator (T) of the `bwtables` part of property C01:
    <repo>/primitiv/core/{operator_impl.h, operator_impl.cc, arithmetic.h, tensor_funcs.cc,
                          basic_functions.h, device.cc}
    ->  coq/Gen/BwTables.v   (+ the same facts as JSON in _work/gen/bwtables*.json)

Per operator class the parsed body of BACKWARD(op) (= <Op>::backward of operator_impl.cc, macros
expanded by `g++ -E`) as a syntax tree of coq/Tables/OpSyntax.v, together with what the checkers
of coq/Tables/BwCheck.v need to relate it to FORWARD(op): the operator classes (fields,
num_arguments), <Op>::forward, the Tensor functions / template specialisations / arithmetic
operators FORWARD goes through, and the SIGNATURES of all Device entry points of device.cc
(which parameters are `const Tensor &` inputs, which are `Tensor &` accumulators).  The table is
self-contained (it does not import Gen/OpTables.v) so that a scratch run of another check cannot
change what this one sees.

This script is ONLY a parser: it reuses the tokenizer / recursive-descent parser / printer of
translate/gen_optables.py (imported as a module, not modified).  Every classification (which
statement writes through gx, which Device entry FORWARD reaches, what BACKWARD must then call) is
computed IN COQ from these trees.  Normalisation, inherited from gen_optables (so that harmless
rewrites do not matter): whitespace, comments, redundant parentheses, macro vs. expanded text,
`a->m` = `(*a).m`, leading `::`, the prefixes `std::` / `primitiv::`, `UNUSED(x);` lines
(`static_cast<void>(x);` statements are dropped), numeric literals re-printed canonically
(`.01` = `0.01`).  Anything the parser does not understand becomes `SOther` / `Other`, which no
checker accepts (fail-closed).

PV_REPO is honoured: for a scratch tree the table goes to a SEPARATE file
_work/gen/bw-scratch-<md5 of the path>/Gen/BwTables.v (engines/bwtables.py compiles private copies of
the table-dependent files against it under the logical root PVS), never to coq/Gen/BwTables.v, so
that concurrent checks of /repo and of scratch trees cannot see each other's table; the JSON copy
gets a `-scratch` suffix as in gen_optables.py.
"""
import hashlib
import importlib
import json
import os
import re
import sys

sys.path.insert(0, os.path.dirname(os.path.abspath(__file__)))
go = importlib.import_module("gen_optables")

ROOT = "/verif"
OUT_V = os.path.join(ROOT, "coq", "Gen", "BwTables.v")
REVIEWED_V = os.path.join(ROOT, "coq", "Tables", "BwReviewed.v")
Untranslatable = go.Untranslatable

SOURCES = ("operator_impl.h", "operator_impl.cc", "arithmetic.h", "tensor_funcs.cc", "basic_functions.h", "device.cc")


def scratch_dir():
    """private directory of the table (and of the copies compiled against it) for a scratch tree"""
    h = hashlib.md5(go.repo().encode()).hexdigest()[:8]
    return os.path.join(ROOT, "_work", "gen", "bw-scratch-" + h)


def out_v():
    return OUT_V if go.repo() == "/repo" else os.path.join(scratch_dir(), "Gen", "BwTables.v")


def out_json():
    if go.repo() == "/repo":
        return os.path.join(ROOT, "_work", "gen", "bwtables.json")
    return os.path.join(scratch_dir(), "bwtables-scratch.json")


# --------------------------------------------------------------------------- Device signatures

SIG_RE = re.compile(r"\b(Tensor|void|std::vector<std::uint32_t>|std::vector<float>)\s+Device::(\w+)\s*\(([^()]*)\)\s*\{", re.S)


def split_params(text):
    parts, cur, d = [], [], 0
    for t in go.tokenize(text):
        if t in "<([{":
            d += 1
        elif t in ">)]}":
            d -= 1
        if t == "," and d == 0:
            parts.append(cur)
            cur = []
        else:
            cur.append(t)
    if cur:
        parts.append(cur)
    return parts


def device_sigs(text):
    """`void Device::slice_bw(const Tensor &gy, std::uint32_t dim, std::uint32_t offset, Tensor &gx) {`
    -> func record with params [X gy; u32 dim; u32 offset; X& gx]: a non-const Tensor reference (an
    accumulator the entry writes through) keeps its `&`, everything else is normalised as in
    gen_optables.norm_type."""
    out = []
    for m in SIG_RE.finditer(text):
        ret, name, ps = m.group(1), m.group(2), m.group(3)
        params = []
        for p in split_params(ps):
            if not p:
                continue
            if "=" in p:
                p = p[:p.index("=")]
            while p and p[-1] in ("]", "["):
                p = p[:-1]
            if len(p) < 2 or not go.is_ident(p[-1]):
                raise Untranslatable("Device::%s: parameter not understood: %s" % (name, " ".join(p)))
            ty, nm = p[:-1], p[-1]
            nt = go.norm_type(ty)
            if "&" in ty and "const" not in ty and nt == "X":
                nt = "X&"
            params.append([nt, nm])
        out.append({"ns": "", "qual": "Device", "name": name, "ret": go.norm_type(go.tokenize(ret)),
                    "params": params, "inits": [], "body": []})
    return out


# --------------------------------------------------------------------------- reading the repo

def read_bw(cache=False):
    core = os.path.join(go.repo(), "primitiv", "core")
    for f in SOURCES:
        if not os.path.exists(os.path.join(core, f)):
            raise Untranslatable("missing source file primitiv/core/" + f)

    def scan(text):
        funcs, classes = [], []
        go.scan_scope(go.tokenize(text), [], funcs, classes)
        return funcs, classes

    tabs = {}
    pp = go.preprocess(os.path.join(core, "operator_impl.cc"), cache)
    parts = go.origin_text(pp, ["core/operator_impl.h", "core/operator_impl.cc", "core/arithmetic.h"])
    _, classes = scan(parts["core/operator_impl.h"])
    opfuncs, _ = scan(parts["core/operator_impl.cc"])
    arith, _ = scan(parts["core/arithmetic.h"])
    classes = [c for c in classes if "Operator" in c["bases"]]
    byname = {c["name"]: c for c in classes}
    fw, bw = [], []
    for f in opfuncs:
        if f["qual"] in byname:
            if f["name"] == f["qual"]:
                byname[f["qual"]]["ctors"].append(f)
            elif f["name"] == "forward":
                fw.append(f)
            elif f["name"] == "backward":
                bw.append(f)
    tabs["bw_op_classes"] = classes
    tabs["bw_fw_methods"] = fw
    tabs["bw_methods"] = bw
    tabs["bw_arith_ops"] = [f for f in arith if f["name"].startswith("operator") and f["ret"] == "X"]

    pp = go.preprocess(os.path.join(core, "tensor_funcs.cc"), cache)
    parts = go.origin_text(pp, ["core/tensor_funcs.cc", "core/basic_functions.h"])
    tf, _ = scan(parts["core/tensor_funcs.cc"])
    bf, _ = scan(parts["core/basic_functions.h"])
    tabs["bw_tensor_funcs"] = [f for f in tf if f["ns"].startswith("functions") or f["ns"] == "<anon>"]
    specs = [f for f in bf if f["ns"].startswith("functions") and
             (f["name"].endswith("<X>") or any(p[0] == "Device&" for p in f["params"]))]
    tabs["bw_template_specs"] = go.respecialise(specs, parts["core/basic_functions.h"])

    pp = go.preprocess(os.path.join(core, "device.cc"), cache)
    parts = go.origin_text(pp, ["core/device.cc"])
    tabs["bw_device_sigs"] = device_sigs(parts["core/device.cc"])
    return tabs


# --------------------------------------------------------------------------- Gallina output

HEADER = """(* GENERATED by translate/gen_bwtables.py from primitiv/core/{operator_impl.h,operator_impl.cc,
   arithmetic.h,tensor_funcs.cc,basic_functions.h,device.cc} -- do not edit.
   bw_methods              <Op>::backward for every operator class (BACKWARD / BACKWARD_NOP expanded)
   bw_methods_cache_delta  those whose body differs under -DPRIMITIV_USE_CACHE
   bw_fw_methods           <Op>::forward
   bw_op_classes           the operator classes (fields, constructors, num_arguments ...)
   bw_tensor_funcs / bw_template_specs / bw_arith_ops   what FORWARD goes through
   bw_device_sigs          signatures of the Device entry points (X = const Tensor &, X& = Tensor & accumulator) *)
From Coq Require Import List String NArith.
From PV Require Import Tables.OpSyntax.
Import ListNotations.
Local Open Scope string_scope.

"""

KEYS_F = ("bw_methods", "bw_methods_cache_delta", "bw_fw_methods", "bw_tensor_funcs", "bw_template_specs", "bw_arith_ops",
          "bw_device_sigs")
EMPTY = dict({k: [] for k in KEYS_F}, bw_op_classes=[])


def g_class_all(c):
    """like gen_optables.g_class (kept textually compatible with Tables/OpSyntax.opclass)."""
    return go.g_class(c)


def render(tabs):
    out = [HEADER]
    cl = tabs.get("bw_op_classes", [])
    if cl:
        out.append("Definition bw_op_classes : list opclass := [\n  %s\n].\n\n" % ";\n  ".join(g_class_all(x) for x in cl))
    else:
        out.append("Definition bw_op_classes : list opclass := [].\n\n")
    for k in KEYS_F:
        out.append(go.g_funcs(k, tabs.get(k, [])) + "\n")
    return "".join(out)


# --------------------------------------------------------------------------- reviewed copy

NOPS = ("Input", "Constant", "Identity", "RandomBernoulli", "RandomUniform", "RandomNormal", "RandomLogNormal", "StopGradient")

# operator -> the mathematical rule its BACKWARD body implements (comment of the reviewed copy)
RULES = [
    ("Parameter", "y = value of the parameter (no operand).  param.gradient() += gy[0]: the adjoint that reaches the leaf is added "
                  "to the Parameter's gradient (the `grad_after p - g0 p` of the graph theorem)."),
    ("Copy", "y = x (copied to device_).  gx[0] += copy(gy[0] -> the device of gx[0]): the adjoint of the identity is the identity."),
    ("Split", "y[i] = slice(x, dim, i*span, (i+1)*span), span = x.shape[dim] / n.  For every output i < n: "
              "slice_bw(gy[i], dim, i*span, gx[0]) with span = gy[0].shape[dim] (all outputs have one shape), i.e. "
              "gx[.., i*span + k, ..] += gy[i][.., k, ..]: the transposes of the n slice gathers, summed into the one gx "
              "(Graph::backward materialises zeros for unused outputs)."),
    ("Concat", "y = concat(xs, dim): y[.., off_k + j, ..] = x_k[.., j, ..] with off_k = sum_{l<k} x_l.shape[dim].  Running offset "
               "from 0; for every operand k IN ORDER: span = gx_k.shape[dim]; gx_k += slice(gy[0], dim, offset, offset + span); "
               "offset += span.  So gx_k[.., j, ..] += gy[.., off_k + j, ..]: the transpose of the concat_fw entries of operand k "
               "(`+=` = inplace_add, which also folds the minibatch when x_k has batch 1)."),
    ("Reshape", "y = x with another shape, same flat data.  gx[0] += gy[0].reshape(x[0].shape()): identity on the flat data."),
    ("Flatten", "y = x flattened, same flat data.  gx[0] += gy[0].reshape(x[0].shape()): identity on the flat data."),
    ("Positive", "y = +x.  gx[0] += gy[0]."),
    ("Negative", "y = -x.  gx[0] -= gy[0]."),
    ("AddScalar", "y = x0 + x1, x1 a scalar (volume 1) broadcast over the elements of x0.  gx0 += gy;  gx1 += sum over the volume of gy "
                  "(sum(gy.flatten(), 0), one value per sample); `+=` folds the minibatch into a batch-1 operand."),
    ("SubtractScalarR", "y = x0 - x1, x1 scalar.  gx0 += gy;  gx1 -= volume-sum of gy."),
    ("SubtractScalarL", "y = x1 - x0, x1 scalar.  gx0 -= gy;  gx1 += volume-sum of gy."),
    ("MultiplyScalar", "y = x0 * x1, x1 scalar.  gx0 += x1 * gy;  gx1 += volume-sum of (x0 * gy)."),
    ("DivideScalarR", "y = x0 / x1, x1 scalar.  a = gy / x1;  gx0 += a  (d/dx0 = 1/x1);  gx1 -= volume-sum of (a * y)  (d/dx1 = -x0/x1^2 = -y/x1)."),
    ("DivideScalarL", "y = x1 / x0, x1 scalar.  a = gy / x0;  gx0 -= a * y  (d/dx0 = -x1/x0^2 = -y/x0);  gx1 += volume-sum of a  (d/dx1 = 1/x0)."),
    ("PowScalarR", "y = x0 ^ x1, x1 scalar.  a = gy * y;  gx0 += a * x1 / x0  (d/dx0 = x1 x0^(x1-1) = y x1/x0);  "
                   "gx1 += volume-sum of (a * log x0)  (d/dx1 = y log x0)."),
    ("PowScalarL", "y = x1 ^ x0, x1 scalar.  a = gy * y;  gx0 += a * log x1  (d/dx0 = y log x1);  "
                   "gx1 += volume-sum of (a * x0 / x1)  (d/dx1 = x0 x1^(x0-1) = y x0/x1)."),
    ("Sum", "y = sum(x, dim).  gx[0] += broadcast(gy[0], dim, x[0].shape()[dim]): every summand receives the gradient of the sum."),
    ("LogSumExp", "y = logsumexp(x, dim);  dy/dx = softmax(x) = exp(x - broadcast(y)).  n = x.shape[dim];  "
                  "gx[0] += exp(x[0] - broadcast(y[0], dim, n)) * broadcast(gy[0], dim, n)."),
    ("Broadcast", "y = broadcast(x, dim, size).  gx[0] += sum(gy[0], dim): the copies' gradients are added up."),
    ("BatchSplit", "y[i] = batch::slice(x, i*span, (i+1)*span), span = x.batch / n.  For every output i < n: "
                   "batch_slice_bw(gy[i], i*span, gx[0]) with span = gy[0].batch."),
    ("BatchConcat", "y = batch::concat(xs).  Running offset from 0; for every operand k in order: span = gx_k.batch; "
                    "gx_k += batch::slice(gy[0], offset, offset + span); offset += span."),
    ("BatchSum", "y = sum over the minibatch of x (batch 1).  gx[0] += gy[0]: `+=` (inplace_add) broadcasts the batch-1 gy to every sample."),
    ("SoftmaxCrossEntropy", "y = -sum_dim t * log_softmax(x, dim).  l = log_softmax(x[0], dim); g = broadcast(gy[0], dim, x[0].shape[dim]);  "
                            "gx0 += (exp(l) - t) * g  (the derivative only when sum_dim t = 1: known finding D11);  gx1 -= l * g."),
    ("SparseSoftmaxCrossEntropy", "y = -log_softmax(x, dim)[ids].  gx0 += softmax(x[0], dim) * broadcast(gy[0], dim, x[0].shape[dim]);  "
                                  "pick_bw(-gy[0], ids, dim, gx[0]), i.e. gx0[.., ids, ..] -= gy.  (Cache build: exp(log_softmax_x_) "
                                  "cached by FORWARD instead of softmax(x[0], dim).)"),
]


def render_reviewed(tabs):
    """coq/Tables/BwReviewed.v: the composite BACKWARD bodies as they were when a person last
    compared them with the C++ and with the rule stated above each (NOT regenerated by the check)."""
    by = {f["qual"]: f for f in tabs["bw_methods"]}
    out = ["(* REVIEWED COPY of the composite BACKWARD bodies of primitiv/core/operator_impl.cc (written once by\n"
           "   `translate/gen_bwtables.py --emit-reviewed`, then read and compared with the C++ and with the\n"
           "   mathematical rule stated above each body; NOT regenerated by ./check).  The obligation\n"
           "   C01_bw_composites_reviewed (Tables/BwFacts.v) compares the regenerated bodies with these; the rules\n"
           "   of Concat, Split, Reshape, Flatten, Sum, Broadcast, BatchSum, BatchSplit, BatchConcat, Copy, Positive,\n"
           "   Negative are PROVED adjoint to the forward kernels in Tables/BwAdjoint.v (through the evaluator of\n"
           "   Tables/BwSem.v applied to these very bodies). *)\n"
           "From Coq Require Import List String.\nFrom PV Require Import Tables.OpSyntax.\nImport ListNotations.\n"
           "Local Open Scope string_scope.\n\n"]
    names = []
    for name, rule in RULES:
        if name not in by:
            raise Untranslatable("no BACKWARD(%s) in the source" % name)
        out.append("(* %s:  %s *)\n" % (name, rule.replace("*)", "* )")))
        out.append("Definition rv_%s : func :=\n  %s.\n\n" % (name, go.g_func(by[name])))
        names.append("rv_" + name)
    out.append("Definition rv_bw : list func := [%s].\n\n" % "; ".join(names))
    out.append("(* body under -DPRIMITIV_USE_CACHE where it differs (SparseSoftmaxCrossEntropy: exp(log_softmax_x_)) *)\n")
    out.append(go.g_funcs("rv_bw_cache_delta", tabs.get("bw_methods_cache_delta", [])) + "\n")
    out.append("(* operators without a differentiable operand: BACKWARD_NOP, the body is empty after UNUSED(...) is dropped *)\n")
    out.append("Definition rv_nops : list string := [%s].\n" % "; ".join(go.q(n) for n in NOPS))
    return "".join(out)


# --------------------------------------------------------------------------- main

def main(write_v=True):
    """Regenerate coq/Gen/BwTables.v (for a scratch tree: the private copy, see out_v) and the JSON copy.  When the sources cannot be read the
    file is still written, with empty tables (the non-emptiness obligation then fails), so that
    no stale table is ever checked."""
    err = None
    try:
        tabs = read_bw(False)
        ctabs = read_bw(True)
        plain = {f["qual"]: f for f in tabs["bw_methods"]}
        tabs["bw_methods_cache_delta"] = [f for f in ctabs["bw_methods"] if plain.get(f["qual"]) != f]
        other = [k for k in tabs if k not in ("bw_methods", "bw_methods_cache_delta", "bw_fw_methods") and tabs[k] != ctabs.get(k)]
        if other:   # any other table changing under the cache flag is reported as an unparsed method
            tabs["bw_methods_cache_delta"].append({"ns": "", "qual": "", "name": "<tables differ: %s>" % ",".join(other),
                                                   "ret": "", "params": [], "inits": [], "body": [["SOther", "cache"]]})
    except Untranslatable as e:
        err = str(e)
        tabs = dict(EMPTY)
    if write_v:
        content = render(tabs)
        if err:
            content += "(* UNTRANSLATABLE: %s *)\n" % err.replace("*)", "* )")
        go.write_if_changed(out_v(), content)
    os.makedirs(os.path.dirname(out_json()), exist_ok=True)
    with open(out_json(), "w") as f:
        json.dump(tabs, f, indent=1)
    if err:
        raise Untranslatable(err)
    return out_v()


if __name__ == "__main__":
    if "--emit-reviewed" in sys.argv:
        main(write_v=False)
        t = json.load(open(out_json()))
        open(REVIEWED_V, "w").write(render_reviewed(t))
        print("wrote coq/Tables/BwReviewed.v -- REVIEW IT against the C++ before committing")
        sys.exit(0)
    try:
        print(main(write_v="--no-v" not in sys.argv))
    except Untranslatable as e:
        print("untranslatable:", e)
        sys.exit(1)
