#!/usr/bin/env python3
"""Translator (T) of the C20 engine, forwarding part:
/repo/primitiv/c/**/*.cc  ->  coq/Gen/CApiFwd.v  (+ the same facts as JSON in
_work/gen/capi_fwd.json for engines/c20.py).

For every exported wrapper `PRIMITIV_C_STATUS primitivXxx(...) try {...}` (clang JSON AST, macros
expanded, the same dump translate/gen_capi.py reads) one row:
  * the parameter list (name, C type as spelled),
  * the C++ callees of the body (function / method / constructor names, in source order),
  * the ordered list of ENTRIES saying how the wrapper's own parameters reach the C++ side.
    Null checks (`PRIMITIV_C_CHECK_NOT_NULL(p)`, the element-check loops) are not forwarding and
    are skipped.  Every other appearance of a parameter is one entry `FwParam i form conv`:
        FPlain      p itself is an argument (scalars, raw data pointers)
        FDeref      *to_cpp_ptr(p)                     FPtr     to_cpp_ptr(p) handed on as a pointer
        FRecv       to_cpp_ptr(p)->method(...)         FDelete  delete to_cpp_ptr(p)
        FVecPtr/FVecLen   the p and the n of `std::vector<T>(p, p + n)` (always adjacent, same p)
        FString     std::string built from the `const char *` p
        FElemDeref / FElemPtr    *to_cpp_ptr(p[i]) / to_cpp_ptr(p[i])
        FConv       p inside an explicit conversion expression that is an argument; `conv` is the
                    expression, normalised, with `$` for the parameter: `($ == 1)`, `($ != 0)`,
                    `static_cast<bool>($)` ...
        FLocal      copied into a local variable (`size_t size = n;`)
        FOut        *p = ...  (out-parameter)          FBuf / FSize   buffer / size_t* of a size-query helper
        FOther      any other appearance (loop bound, ...)
    `conv` of the other forms lists the implicit casts clang inserted (`implicit:IntegralToBoolean`
    for a PRIMITIV_C_BOOL handed to a `bool`), or the cast behind a local alias
    (`reinterpret_cast<const Node *const *>($)`).
    An argument of a C++ callee that is a literal / constant expression without a parameter is an
    entry `FwLit text`; a defaulted argument (`CXXDefaultArgExpr`) of a non-std callee `FwDefault`.
A wrapper the patterns below cannot read yields a row with `f_parsed := false` (no theorem accepts
it); the translator never crashes on one wrapper."""
import concurrent.futures
import json
import os
import sys

sys.path.insert(0, os.path.dirname(os.path.abspath(__file__)))
import gen_capi as G

ROOT = "/verif"
REPO = G.REPO
OUT_V = os.path.join(ROOT, "coq", "Gen", "CApiFwd.v")
OUT_JSON = os.path.join(ROOT, "_work", "gen", "capi_fwd" + ("" if REPO == "/repo" else "-scratch") + ".json")

GLUE_OUT = ("to_c_ptr", "to_c_ptr_from_value")
THROUGH = ("ParenExpr", "ExprWithCleanups", "MaterializeTemporaryExpr", "CXXBindTemporaryExpr", "ConstantExpr")
IGNORED_CASTS = ("LValueToRValue", "NoOp", "FunctionToPointerDecay", "ArrayToPointerDecay", "ConstructorConversion",
                 "UserDefinedConversion", "DerivedToBase", "UncheckedDerivedToBase")
TYPED_CASTS = ("IntegralCast", "FloatingCast", "IntegralToFloating", "FloatingToIntegral")
LITERALS = ("IntegerLiteral", "FloatingLiteral", "CXXBoolLiteralExpr", "StringLiteral", "CXXNullPtrLiteralExpr",
            "GNUNullExpr", "CharacterLiteral")
CALLS = ("CallExpr", "CXXMemberCallExpr", "CXXOperatorCallExpr", "CXXConstructExpr", "CXXTemporaryObjectExpr", "CXXNewExpr")
CASTS = ("CXXStaticCastExpr", "CStyleCastExpr", "CXXReinterpretCastExpr", "CXXConstCastExpr", "CXXFunctionalCastExpr")
OUT_FORMS = ("FOut", "FBuf", "FSize")


class Unparsed(Exception):
    pass


def kids(o):
    return [c for c in o.get("inner", []) if c]


def qt(o):
    t = o.get("type", {})
    return t.get("desugaredQualType") or t.get("qualType", "")


def is_std(o):
    t = qt(o)
    return t.startswith("std::") or t.startswith("const std::")


def through(o):
    """drop parentheses / temporaries / implicit casts (cast kinds are returned)"""
    casts = []
    while True:
        k = o.get("kind")
        if k == "ImplicitCastExpr" and kids(o):
            ck = o.get("castKind")
            if ck not in IGNORED_CASTS:
                if ck in TYPED_CASTS:     # the value may change: record from which type to which
                    ck = "%s(%s->%s)" % (ck, kids(o)[0].get("type", {}).get("qualType", "?"), o.get("type", {}).get("qualType", "?"))
                casts.append(ck)
            o = kids(o)[0]
        elif k in THROUGH and kids(o):
            o = kids(o)[0]
        else:
            return o, casts


def cast_text(o):
    t = o.get("type", {}).get("qualType", "?")
    t = t.replace("primitiv::", "")
    k = o["kind"]
    if k == "CXXStaticCastExpr":
        return "static_cast<%s>(%%s)" % t
    if k == "CXXReinterpretCastExpr":
        return "reinterpret_cast<%s>(%%s)" % t
    if k == "CXXConstCastExpr":
        return "const_cast<%s>(%%s)" % t
    if k == "CStyleCastExpr":
        return "(%s)%%s" % t
    return "%s(%%s)" % t


class Fwd:
    def __init__(self, decl, path):
        self.name = decl["name"]
        self.path = os.path.relpath(path, os.path.join(REPO, "primitiv", "c"))
        self.params = []
        self.items = []       # ("P", index, form, conv) | ("L", text) | ("D",)
        self.callees = []
        self.alias = {}       # local VarDecl id -> (param, "ptr" | "array", conv)
        self.locals = set()
        self.local_from = {}  # local VarDecl id -> scalar parameter it is a copy of
        self.unparsed = None
        for c in kids(decl):
            if c["kind"] == "ParmVarDecl":
                self.params.append((c.get("name", "_arg%d" % len(self.params)), c["type"]["qualType"]))
        try:
            self.fn = G.Fn(decl, path)      # null_check / elem_check_loop / parameter ids
            self.pid = self.fn.pid
            for st in kids(self.fn.top):
                self.stmt(st)
        except Exception as ex:           # noqa: a row no theorem accepts, never a crash
            self.unparsed = "%s: %s" % (type(ex).__name__, str(ex)[:200])
            self.items = []

    # ------------------------------------------------------------------ helpers
    def item(self, p, form, conv=""):
        self.items.append(("P", p, form, conv))

    def pref(self, o):
        """parameter index if o (through casts) is a reference to a parameter"""
        o, _ = through(o)
        if o.get("kind") == "DeclRefExpr":
            return self.pid.get(o.get("referencedDecl", {}).get("id"))
        return None

    def is_pointer(self, p):
        return "*" in self.params[p][1]

    def conv_of(self, casts):
        return ("implicit:" + "+".join(casts)) if casts else ""

    def objptr(self, o):
        """(param, is_element) if o is to_cpp_ptr(p) / to_cpp_ptr(p[i]) / a local alias of to_cpp_ptr(p)"""
        o, _ = through(o)
        if o.get("kind") == "DeclRefExpr":
            a = self.alias.get(o.get("referencedDecl", {}).get("id"))
            if a and a[1] == "ptr":
                return (a[0], False)
            return None
        if o.get("kind") == "CallExpr" and G.callee_name(o) == "to_cpp_ptr" and len(kids(o)) == 2:
            a, _ = through(kids(o)[1])
            p = self.pref(a)
            if p is not None and self.is_pointer(p):
                return (p, False)
            if a.get("kind") == "ArraySubscriptExpr":
                b = self.pref(kids(a)[0])
                idx, _ = through(kids(a)[1])
                if b is not None and self.pref(idx) is None:
                    return (b, True)
        return None

    def param_refs(self, o, out):
        if o.get("kind") == "DeclRefExpr":
            i = o.get("referencedDecl", {}).get("id")
            if i in self.pid:
                out.append(self.pid[i])
            elif i in self.alias:
                out.append(self.alias[i][0])
            return out
        for c in kids(o):
            self.param_refs(c, out)
        return out

    def render(self, o, order):
        """normalised text of a conversion / constant expression; parameters are `$`, `$2`, ..."""
        o, _ = through(o)
        k = o.get("kind")
        if k == "DeclRefExpr":
            d = o.get("referencedDecl", {})
            i = d.get("id")
            p = self.pid.get(i, self.alias.get(i, (None,))[0])
            if p is None:
                return d.get("name", "?")
            if p not in order:
                order.append(p)
            n = order.index(p)
            return "$" if n == 0 else "$%d" % (n + 1)
        if k in ("IntegerLiteral", "FloatingLiteral", "CharacterLiteral"):
            return str(o.get("value"))
        if k == "CXXBoolLiteralExpr":
            return "true" if o.get("value") else "false"
        if k == "StringLiteral":
            return o.get("value", '""')
        if k in ("CXXNullPtrLiteralExpr", "GNUNullExpr"):
            return "nullptr"
        if k == "BinaryOperator" and len(kids(o)) == 2:
            return "(%s %s %s)" % (self.render(kids(o)[0], order), o.get("opcode"), self.render(kids(o)[1], order))
        if k == "UnaryOperator" and kids(o):
            x = self.render(kids(o)[0], order)
            return (x + o.get("opcode", "?")) if o.get("isPostfix") else (o.get("opcode", "?") + x)
        if k == "ConditionalOperator" and len(kids(o)) == 3:
            return "(%s ? %s : %s)" % tuple(self.render(c, order) for c in kids(o))
        if k in CASTS and kids(o):
            return cast_text(o) % self.render(kids(o)[0], order)
        if k == "UnaryExprOrTypeTraitExpr":
            return "sizeof"
        return "?" + str(k)

    # ------------------------------------------------------------------ statements
    def stmt(self, st):
        k = st["kind"]
        if k == "NullStmt":
            return
        if self.fn.null_check(st) is not None:
            return
        if k == "ForStmt" and self.fn.elem_check_loop(st) is not None:
            return
        self.scan(st)

    def var_decl(self, o):
        ks = [c for c in kids(o) if "Attr" not in c.get("kind", "")]
        self.locals.add(o["id"])
        if not ks:
            return
        init, casts = through(ks[0])
        a = self.objptr(init)
        if a and not a[1] and init.get("kind") == "CallExpr":
            self.alias[o["id"]] = (a[0], "ptr", "")
            return
        if init.get("kind") in CASTS and kids(init):
            p = self.pref(kids(init)[0])
            if p is not None and self.is_pointer(p):
                self.alias[o["id"]] = (p, "array", cast_text(init) % "$")
                return
        p = self.pref(init)
        if p is not None and not self.is_pointer(p):
            self.local_from[o["id"]] = p
            self.item(p, "FLocal", self.conv_of(casts))
            return
        self.scan(ks[0])

    def scan(self, o):
        """an expression / statement that is not itself an argument of a C++ callee"""
        o, _ = through(o)
        k = o.get("kind")
        if k == "DeclStmt":
            for v in kids(o):
                if v.get("kind") == "VarDecl":
                    self.var_decl(v)
                else:
                    raise Unparsed("declaration %s" % v.get("kind"))
            return
        if k == "IfStmt" and self.fn.null_check(o) is not None:
            return
        if k == "ReturnStmt":
            ks = kids(o)
            if ks and through(ks[0])[0].get("kind") not in LITERALS:
                self.scan(ks[0])
            return
        if k == "LambdaExpr":
            raise Unparsed("lambda expression")
        if k == "BinaryOperator" and o.get("opcode") == "=" and len(kids(o)) == 2:
            lhs, rhs = kids(o)
            self.scan(rhs)
            l, _ = through(lhs)
            if l.get("kind") == "UnaryOperator" and l.get("opcode") == "*":
                p = self.pref(kids(l)[0])
                if p is not None and self.is_pointer(p):
                    self.item(p, "FOut")
                    return
            self.scan(lhs)
            return
        if k == "CXXDeleteExpr":
            a = self.objptr(kids(o)[0]) if kids(o) else None
            if not a:
                raise Unparsed("delete of something that is not to_cpp_ptr(p)")
            self.callees.append("delete")
            self.item(a[0], "FDelete")
            return
        if k in CALLS:
            self.call(o)
            return
        if k == "DeclRefExpr":
            i = o.get("referencedDecl", {}).get("id")
            if i in self.pid:
                self.item(self.pid[i], "FOther")
            elif i in self.alias:
                self.item(self.alias[i][0], "FOther")
            return
        for c in kids(o):
            self.scan(c)

    # ------------------------------------------------------------------ calls
    def call(self, o):
        k = o["kind"]
        ks = kids(o)
        if k == "CXXNewExpr":
            if not any(c.get("kind") == "CXXConstructExpr" for c in ks):
                self.callees.append("new " + o.get("type", {}).get("qualType", "?").replace("primitiv::", ""))
            for c in ks:
                self.scan(c)
            return
        if k in ("CXXConstructExpr", "CXXTemporaryObjectExpr"):
            self.construct(o)
            return
        callee, _ = through(ks[0])
        args = ks[1:]
        name = G.callee_name(o)
        if k == "CallExpr" and name in GLUE_OUT:
            for a in args:
                self.scan(a)
            return
        if k == "CallExpr" and name == "to_cpp_ptr":
            self.arg(o)
            return
        if k == "CallExpr" and name in G.HELPERS:
            self.helper(name, args)
            return
        if callee.get("kind") == "MemberExpr":
            self.callees.append(("->" if callee.get("isArrow") else ".") + str(name))
            if kids(callee):
                self.arg(kids(callee)[0], recv=True)
        elif callee.get("kind") == "DeclRefExpr":
            self.callees.append(str(name))
        else:
            raise Unparsed("call through %s" % callee.get("kind"))
        for a in args:
            self.arg(a, std=False)

    def construct(self, o):
        ks = kids(o)
        t = qt(o)
        real = [a for a in ks if a.get("kind") != "CXXDefaultArgExpr"]
        if is_std(o) and "vector<" in t.split("(")[0] and len(real) == 2:
            self.vector(o, real)
            return
        if is_std(o) and "basic_string<" in t and len(real) == 1:
            a, _ = through(real[0])
            p = self.pref(a)
            if p is not None and self.is_pointer(p):
                self.item(p, "FString")
                return
        # copy / move of a temporary: not a callee of its own
        ct = o.get("ctorType", {}).get("qualType", "")
        if len(real) == 1 and ("&&)" in ct or "&)" in ct) and t.replace("const ", "").split("<")[0] in ct \
                and through(real[0])[0].get("kind") in CALLS:
            self.arg(real[0], std=is_std(o))
            return
        self.callees.append("ctor " + t.replace("primitiv::", "").replace("const ", ""))
        for a in ks:
            self.arg(a, std=is_std(o))

    def vector(self, o, real):
        a, _ = through(real[0])
        b, _ = through(real[1])

        def base(x):
            x, _ = through(x)
            if x.get("kind") != "DeclRefExpr":
                return None
            i = x.get("referencedDecl", {}).get("id")
            if i in self.pid and self.is_pointer(self.pid[i]):
                return (self.pid[i], "")
            al = self.alias.get(i)
            if al and al[1] == "array":
                return (al[0], al[2])
            return None
        pa = base(a)
        if pa is None or b.get("kind") != "BinaryOperator" or b.get("opcode") != "+" or len(kids(b)) != 2:
            raise Unparsed("std::vector not built as (p, p + n)")
        pb = base(kids(b)[0])
        n, ncasts = through(kids(b)[1])
        pn = self.pref(n)
        if pb != pa or pn is None or self.is_pointer(pn):
            raise Unparsed("std::vector not built as (p, p + n)")
        self.item(pa[0], "FVecPtr", pa[1])
        self.item(pn, "FVecLen", self.conv_of(ncasts))

    def helper(self, name, args):
        if len(args) != 3:
            raise Unparsed("helper with %d arguments" % len(args))
        self.callees.append(name)
        self.arg(args[0])
        p = self.pref(args[1])
        if p is None:
            raise Unparsed("helper buffer is not a parameter")
        self.item(p, "FBuf")
        s, _ = through(args[2])
        p = self.pref(s)
        if p is not None:
            self.item(p, "FSize")
            return
        if s.get("kind") == "UnaryOperator" and s.get("opcode") == "&":
            d, _ = through(kids(s)[0])
            if d.get("kind") == "DeclRefExpr" and d.get("referencedDecl", {}).get("id") in self.local_from:
                return
        raise Unparsed("helper size is neither a parameter nor a local copy of one")

    def arg(self, o, recv=False, std=False):
        """o is an argument (or the receiver) of a C++ callee"""
        o, casts = through(o)
        conv = self.conv_of(casts)
        k = o.get("kind")
        if k == "DeclRefExpr":
            d = o.get("referencedDecl", {})
            i = d.get("id")
            if i in self.pid:
                self.item(self.pid[i], "FPlain", conv)
            elif i in self.alias:
                p, mode, ac = self.alias[i]
                if mode == "ptr":
                    self.item(p, "FRecv" if recv else "FPtr", conv)
                else:
                    self.item(p, "FPlain", ac)
            elif i in self.locals:
                pass
            elif d.get("kind") in ("EnumConstantDecl", "VarDecl"):
                self.items.append(("L", d.get("name", "?")))
            return
        if k == "CXXDefaultArgExpr":
            if not std:
                self.items.append(("D",))
            return
        if k in LITERALS:
            self.items.append(("L", self.render(o, [])))
            return
        if k == "UnaryOperator" and o.get("opcode") == "*":
            a = self.objptr(kids(o)[0])
            if a:
                self.item(a[0], "FElemDeref" if a[1] else "FDeref", conv)
                return
        if k == "UnaryOperator" and o.get("opcode") == "&":
            d, _ = through(kids(o)[0])
            if d.get("kind") == "DeclRefExpr" and d.get("referencedDecl", {}).get("id") in self.locals:
                return
            self.arg(kids(o)[0], recv, std)
            return
        if k == "CallExpr" and G.callee_name(o) == "to_cpp_ptr":
            a = self.objptr(o)
            if not a:
                raise Unparsed("to_cpp_ptr of something that is not a parameter")
            self.item(a[0], "FRecv" if recv else ("FElemPtr" if a[1] else "FPtr"), conv)
            return
        if k in CALLS:
            self.call(o)
            return
        if k in ("InitListExpr", "CXXStdInitializerListExpr"):
            for c in kids(o):
                self.arg(c, std=std)
            return
        if k == "LambdaExpr":
            raise Unparsed("lambda expression")
        if G.contains(o, "CallExpr") or G.contains(o, "CXXMemberCallExpr") or G.contains(o, "CXXConstructExpr"):
            self.scan(o)
            return
        refs = self.param_refs(o, [])
        order = []
        text = self.render(o, order)
        if conv:
            text = conv + " " + text
        if not refs:
            self.items.append(("L", text))
            return
        for p in order:
            self.item(p, "FConv", text)

    # ------------------------------------------------------------------ derived facts
    def out_params(self):
        return sorted({it[1] for it in self.items if it[0] == "P" and it[2] in OUT_FORMS})


# --------------------------------------------------------------------------- output

def coq_str(s):
    return '"' + s.replace('"', '""') + '"'


def coq_entry(it):
    if it[0] == "P":
        return "FwParam %d %s %s" % (it[1], it[2], coq_str(it[3]))
    if it[0] == "L":
        return "FwLit %s" % coq_str(it[1])
    return "FwDefault"


def emit(rows, files):
    L = []
    L.append("(* GENERATED by translate/gen_capi_fwd.py from %s/primitiv/c/**/*.cc -- do not edit." % ("/repo" if REPO == "/repo" else "a scratch copy of /repo"))
    L.append("   One row per exported wrapper: parameters (name, C type), C++ callees, and the ordered entries")
    L.append("   saying in which order and form the wrapper's parameters are forwarded (see the translator's header).")
    L.append("   Files read: %s *)" % " ".join(os.path.relpath(f, os.path.join(REPO, "primitiv", "c")) for f in files))
    L.append("From Coq Require Import List String.")
    L.append("From PV Require Import CApi.Forwarding.")
    L.append("Import ListNotations.")
    L.append("Local Open Scope string_scope.")
    L.append("")
    names = []
    for r in rows:
        ident = "fw_" + r.name
        names.append(ident)
        L.append("Definition %s : fwd_row := {|" % ident)
        L.append("  f_name := %s; f_file := %s; f_parsed := %s;" % (coq_str(r.name), coq_str(r.path), "false" if r.unparsed else "true"))
        L.append("  f_params := [%s];" % "; ".join("(%s, %s)" % (coq_str(n), coq_str(t)) for n, t in r.params))
        L.append("  f_callees := [%s];" % "; ".join(coq_str(c) for c in r.callees))
        L.append("  f_entries := [%s] |}." % ";\n                ".join(coq_entry(it) for it in r.items))
        L.append("")
    L.append("Definition fwd_table : list fwd_row :=\n  [%s]." % ";\n   ".join(names))
    return "\n".join(L) + "\n"


def rows_from(decls):
    """decls: list of (FunctionDecl json, source path) of wrapper DEFINITIONS"""
    return [Fwd(d, f) for d, f in decls]


def wrapper_decls(res, files):
    out = []
    for f, (decls, _) in zip(files, res):
        for d in decls:
            if not d.get("name", "").startswith("primitiv"):
                continue
            if not any(c.get("kind") in ("CXXTryStmt", "CompoundStmt") for c in kids(d)):
                continue
            out.append((d, f))
    return out


def _atomic_write(path, text):
    """write through a temporary file of this process and rename: a concurrent reader never sees a half-written file"""
    tmp = "%s.tmp.%d" % (path, os.getpid())
    with open(tmp, "w") as f:
        f.write(text)
    os.replace(tmp, path)


def write(rows, files):
    txt = emit(rows, files)
    os.makedirs(os.path.dirname(OUT_V), exist_ok=True)
    old = open(OUT_V).read() if os.path.exists(OUT_V) else None
    if old != txt:
        _atomic_write(OUT_V, txt)
    js = {"repo": REPO, "functions": [
        {"name": r.name, "file": r.path, "params": [{"name": n, "ctype": t} for n, t in r.params],
         "callees": r.callees, "entries": [list(it) for it in r.items], "out_params": r.out_params(),
         "unparsed": r.unparsed} for r in rows]}
    os.makedirs(os.path.dirname(OUT_JSON), exist_ok=True)
    _atomic_write(OUT_JSON, json.dumps(js, indent=1))
    return js


def main():
    bdir = G.build_dir()
    files = G.source_files(bdir)
    with concurrent.futures.ThreadPoolExecutor(max_workers=8) as ex:
        res = list(ex.map(lambda f: G.ast_chunks(f, bdir), files))
    rows = rows_from(wrapper_decls(res, files))
    if len(rows) < 10:
        raise RuntimeError("only %d wrappers found" % len(rows))
    return write(rows, files)


if __name__ == "__main__":
    js = main()
    bad = [f["name"] for f in js["functions"] if f["unparsed"]]
    print("%d wrappers (%d unparsed) -> %s" % (len(js["functions"]), len(bad), OUT_V))
