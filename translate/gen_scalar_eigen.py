#!/usr/bin/env python3
"""Translator (T) for the elementwise part of C08: regenerates coq/Gen/ScalarGenEigen.v and
_work/gen/scalar_eigen_table.json from <repo>/primitiv/devices/eigen/ops/{common.h,*.cc} on
every `./check C08`.

What is read
  * common.h: for each EIGEN_DEV_* macro the parameter list of the generated function, the
    `EMap<const EArrayXf> x(CDATA(x_), size)` / `x(src_x, size)` bindings (array name -> tensor
    parameter, through `const float *src_x = CDATA(x_)` where used), the scalar locals
    `const float k = *src_k`, and the update statement `EMap<EArrayXf>(MDATA(y_), size) = (op)` /
    `+= (op)` (target must be the last parameter).  Operand roles come from there.
  * every invocation EIGEN_DEV_FW_X / BW_X / FW_X_CONST / BW_X_CONST / FW_X_SCALAR / FW_AB in
    ops/*.cc (they may span several lines),
  * the batch-loop bodies of add_bw / subtract_bw / multiply_bw / divide_bw / pow_bw
    (`EMap<const EArrayXf> b(pb, size);` declares an operand, `EMap<EArrayXf>(pga, size) += e`
    gives the increment e, `-= e` gives -(e), `p += skip` pointer advances are skipped),
  * pown.cc: the exponentiation-by-squaring statements on whole arrays (y.setConstant(c),
    `EArrayXf factor = x`, `y *= factor`, `if (c) v op= e`, `while (v) {...}`) and pown_bw.

Pointwise meaning of an Eigen array expression (one coefficient; see coq/Backend/EigenBase.v):
  a.exp() .log() .tanh() .sqrt() .abs() .sin() .cos() .tan() -> exp ln tanh sqrt Rabs sin cos tan;
  a.pow(b), ::Eigen::pow(a,b), std::pow -> Rpower a b (same convention as gen_scalar);
  a.square() -> a*a; a.inverse() -> 1/a; a.max(b)/.cwiseMax(b)/.min/.cwiseMin -> Rmax/Rmin;
  a.sign() -> esign a; (c).select(t, e) -> if c then t else e on the real comparison;
  (c).cast<float>() -> 1 or 0; std::<fn>(scalar); + - * / unary minus as in R; float scalar k,
  int32 k -> IZR k.  A comparison may only be used through .select / .cast<float>() / ?: (as in
  C++: a bool array does not take part in float arithmetic).

Anything outside this fragment gives, for that kernel only, a definition of type
`eigen_untranslatable` (the theorem about the kernel then no longer type-checks) and an entry in
the error list (evidence); the translator never raises.

The text is printed from the parsed tree with one fixed parenthesisation (as gen_scalar does).
"""
import json
import os
import re
import sys

sys.path.insert(0, os.path.dirname(os.path.abspath(__file__)))
import gen_scalar as gs  # noqa: E402

Unsupported = gs.Unsupported

OUT_V = "/verif/coq/Gen/ScalarGenEigen.v"
OUT_JSON = "/verif/_work/gen/scalar_eigen_table.json"
# abstract version: same trees, the partial / library operations are the fields of an arbitrary
# interpretation o : ops (coq/Backend/AbsOps.v); the headline theorems of C08 are stated over it
OUT_ABS_V = "/verif/coq/Gen/ScalarGenEigenAbs.v"


def repo():
    return os.environ.get("PV_REPO", "/repo")


def ops_dir():
    return os.path.join(repo(), "primitiv", "devices", "eigen", "ops")


# ------------------------------------------------------------------ lexing / parsing

TOK_RE = re.compile(r"""
    (?P<num>(?:\d+\.\d*|\.\d+|\d+)(?:[eE][+-]?\d+)?[fFuUlL]*)
  | (?P<id>(?:::)?[A-Za-z_][A-Za-z0-9_]*(?:::[A-Za-z_][A-Za-z0-9_]*)*)
  | (?P<op>>>=|<<=|<=|>=|==|!=|&&|\|\||\+=|-=|\*=|/=|>>|<<|\+\+|--|[-+*/%<>=!&|^~?:;,(){}\[\].])
  | (?P<ws>\s+)
""", re.X)


def tokenize(src):
    src = gs.INT32_MIN_RE.sub(" INT32_MIN ", src)
    toks, i = [], 0
    while i < len(src):
        m = TOK_RE.match(src, i)
        if not m:
            raise Unsupported("cannot tokenize at: %r" % src[i:i + 30])
        i = m.end()
        if m.lastgroup != "ws":
            toks.append((m.lastgroup, m.group(m.lastgroup)))
    return toks


class EParser(gs.Parser):
    """gen_scalar's C++ expression parser plus
    ('meth', name, template-args-or-None, receiver, [args])   receiver.name<..>(args)
    ('emap', pointer-name)                                     EMap<const EArrayXf>(p, size)"""

    def postfix(self):
        e = self.primary()
        while self.peek() == ".":
            self.eat(".")
            if self.kind() != "id":
                raise Unsupported("member access without a name")
            name = self.eat()
            targs = None
            if self.peek() == "<":
                self.eat("<")
                targs = []
                while self.peek() not in (">", None):
                    targs.append(self.eat())
                self.eat(">")
            if self.peek() != "(":
                raise Unsupported("member %s is not called" % name)
            self.eat("(")
            args = []
            if self.peek() != ")":
                args.append(self.expr())
                while self.peek() == ",":
                    self.eat(",")
                    args.append(self.expr())
            self.eat(")")
            e = ("meth", name, targs, e, args)
        return e

    def primary(self):
        if self.kind() == "id" and self.peek() == "EMap" and self.peek(1) == "<":
            self.eat()
            self.eat("<")
            targs = []
            while self.peek() not in (">", None):
                targs.append(self.eat())
            self.eat(">")
            if targs not in (["const", "EArrayXf"], ["EArrayXf"]):
                raise Unsupported("EMap<%s>" % " ".join(targs))
            self.eat("(")
            if self.kind() != "id":
                raise Unsupported("EMap of a non-pointer")
            p = self.eat()
            self.eat(",")
            if self.eat() != "size":
                raise Unsupported("EMap length is not `size`")
            self.eat(")")
            return ("emap", p)
        return gs.Parser.postfix(self)


def parse_expr(text):
    p = EParser(tokenize(text))
    e = p.expr()
    if not p.done():
        raise Unsupported("trailing tokens in expression %r" % " ".join(text.split()))
    return e


# ------------------------------------------------------------------ elaboration (typed, pointwise)
# types: 'A' float array, 'S' float scalar, 'Z' int32 scalar, 'AB' bool array, 'SB' bool scalar
# nodes: ('num', q) ('v', role) ('neg', a) ('bin', op, a, b) ('ind', cop, a, b)
#        ('ite', cop, a, b, t, e) ('f1', f, a) ('f2', f, a, b)

F1 = {"exp": ("exp", "m_exp"), "ln": ("ln", "m_log"), "tanh": ("tanh", "m_tanh"), "sin": ("sin", "m_sin"),
      "cos": ("cos", "m_cos"), "tan": ("tan", "m_tan"), "sqrt": ("sqrt", "m_sqrt"), "abs": ("Rabs", "abs"),
      "sign": ("esign", "m_sign")}
F2 = {"pow": ("Rpower", "m_pow"), "max": ("Rmax", "max"), "min": ("Rmin", "min")}
METH1 = {"exp": "exp", "log": "ln", "tanh": "tanh", "sin": "sin", "cos": "cos", "tan": "tan", "sqrt": "sqrt",
         "abs": "abs", "cwiseAbs": "abs", "sign": "sign", "cwiseSqrt": "sqrt"}
METH2 = {"pow": "pow", "max": "max", "cwiseMax": "max", "min": "min", "cwiseMin": "min"}
STD1 = {"std::exp": "exp", "std::log": "ln", "std::tanh": "tanh", "std::sin": "sin", "std::cos": "cos",
        "std::tan": "tan", "std::sqrt": "sqrt", "std::abs": "abs", "std::fabs": "abs"}
STD2 = {"std::pow": "pow", "std::max": "max", "std::fmax": "max", "std::min": "min", "std::fmin": "min"}
EIG1 = {"exp": "exp", "log": "ln", "tanh": "tanh", "sin": "sin", "cos": "cos", "tan": "tan", "sqrt": "sqrt",
        "abs": "abs", "sign": "sign"}
CMPS = {">": "Rgt_dec", "<": "Rlt_dec", "<=": "Rle_dec", ">=": "Rge_dec"}
NUMERIC = ("A", "S", "Z")


def join(ta, tb):
    return "A" if "A" in (ta, tb) else "S"


def numeric(t, what):
    if t not in NUMERIC:
        raise Unsupported("%s: a comparison result used as a number without .cast<float>()" % what)


def elab(e, env):
    """-> (node, type).  env: {'arr': {name: role}, 'ptr': {pointer: role}, 'scalar': {name: role},
    'int': {name: role}}"""
    k = e[0]
    if k == "num":
        return ("num", e[1]), "S"
    if k == "var":
        n = e[1]
        if n in env.get("arr", {}):
            return ("v", env["arr"][n]), "A"
        if n in env.get("scalar", {}):
            return ("v", env["scalar"][n]), "S"
        if n in env.get("int", {}):
            return ("v", env["int"][n]), "Z"
        raise Unsupported("unknown operand %s" % n)
    if k == "emap":
        if e[1] in env.get("ptr", {}):
            return ("v", env["ptr"][e[1]]), "A"
        raise Unsupported("EMap over an unknown pointer %s" % e[1])
    if k == "neg":
        a, t = elab(e[1], env)
        numeric(t, "unary minus")
        return ("neg", a), ("S" if t == "Z" else t)
    if k == "bin":
        if e[1] not in "+-*/" or len(e[1]) != 1:
            raise Unsupported("operator %s" % e[1])
        a, ta = elab(e[2], env)
        b, tb = elab(e[3], env)
        numeric(ta, "operator " + e[1])
        numeric(tb, "operator " + e[1])
        if ta == "Z" and tb == "Z":
            raise Unsupported("integer arithmetic %s" % e[1])
        return ("bin", e[1], a, b), join(ta, tb)
    if k == "cmp":
        if e[1] not in CMPS:
            raise Unsupported("comparison %s on floats" % e[1])
        a, ta = elab(e[2], env)
        b, tb = elab(e[3], env)
        numeric(ta, "comparison")
        numeric(tb, "comparison")
        return ("cmp", e[1], a, b), ("AB" if "A" in (ta, tb) else "SB")
    if k == "tern":
        c, tc = elab(e[1], env)
        if tc != "SB":
            raise Unsupported("?: whose condition is not a scalar comparison")
        a, ta = elab(e[2], env)
        b, tb = elab(e[3], env)
        numeric(ta, "?:")
        numeric(tb, "?:")
        return ("ite", c[1], c[2], c[3], a, b), join(ta, tb)
    if k == "call":
        f, args = e[1], [elab(a, env) for a in e[2]]
        for _, t in args:
            numeric(t, f)
        name = f[2:] if f.startswith("::") else f
        if name in STD1 and len(args) == 1:
            if args[0][1] == "A":
                raise Unsupported("%s applied to an array" % f)
            return ("f1", STD1[name], args[0][0]), "S"
        if name in STD2 and len(args) == 2:
            if "A" in (args[0][1], args[1][1]):
                raise Unsupported("%s applied to an array" % f)
            return ("f2", STD2[name], args[0][0], args[1][0]), "S"
        if name.startswith("Eigen::"):
            g = name[len("Eigen::"):]
            if g == "pow" and len(args) == 2 and "A" in (args[0][1], args[1][1]):
                return ("f2", "pow", args[0][0], args[1][0]), "A"
            if g in EIG1 and len(args) == 1 and args[0][1] == "A":
                return ("f1", EIG1[g], args[0][0]), "A"
        raise Unsupported("call of %s with %d argument(s)" % (f, len(args)))
    if k == "meth":
        _, name, targs, recv, margs = e
        r, tr = elab(recv, env)
        args = [elab(a, env) for a in margs]
        if name == "select" and targs is None and len(args) == 2:
            if tr != "AB":
                raise Unsupported(".select on something that is not an array comparison")
            numeric(args[0][1], ".select")
            numeric(args[1][1], ".select")
            return ("ite", r[1], r[2], r[3], args[0][0], args[1][0]), "A"
        if name == "cast" and targs == ["float"] and not args:
            if tr == "AB":
                return ("ind", r[1], r[2], r[3]), "A"
            if tr == "A":
                return r, "A"
            raise Unsupported(".cast<float>() of a %s" % tr)
        if targs is not None:
            raise Unsupported("member template .%s<%s>" % (name, " ".join(targs)))
        if tr != "A":
            raise Unsupported(".%s on something that is not a float array" % name)
        for _, t in args:
            numeric(t, "." + name)
        if name in METH1 and not args:
            return ("f1", METH1[name], r), "A"
        if name in METH2 and len(args) == 1:
            return ("f2", METH2[name], r, args[0][0]), "A"
        if name in ("square", "abs2") and not args:
            return ("bin", "*", r, r), "A"
        if name in ("inverse", "cwiseInverse") and not args:
            return ("bin", "/", ("num", gs.Fraction(1)), r), "A"
        if name == "cube" and not args:
            return ("bin", "*", ("bin", "*", r, r), r), "A"
        raise Unsupported("member .%s with %d argument(s)" % (name, len(args)))
    raise Unsupported("expression node %r" % (k,))


def elab_array(e, env, what):
    """An operand of `=`/`+=` on a mapped array: a float array or a float scalar (broadcast)."""
    n, t = elab(e, env)
    if t not in ("A", "S"):
        raise Unsupported("%s: right-hand side of type %s" % (what, t))
    return n


# ------------------------------------------------------------------ emitters

def coq(e, zvars=()):
    k = e[0]
    if k == "num":
        return gs.coq_num(e[1])
    if k == "v":
        return "(IZR %s)" % e[1] if e[1] in zvars else e[1]
    if k == "neg":
        return "(- %s)" % coq(e[1], zvars)
    if k == "bin":
        return "(%s %s %s)" % (coq(e[2], zvars), e[1], coq(e[3], zvars))
    if k == "ind":
        return "(b01 (%s %s %s))" % (CMPS[e[1]], coq(e[2], zvars), coq(e[3], zvars))
    if k == "ite":
        return "(if %s %s %s then %s else %s)" % (CMPS[e[1]], coq(e[2], zvars), coq(e[3], zvars),
                                                coq(e[4], zvars), coq(e[5], zvars))
    if k == "f1":
        return "(%s %s)" % (F1[e[1]][0], coq(e[2], zvars))
    if k == "f2":
        return "(%s %s %s)" % (F2[e[1]][0], coq(e[2], zvars), coq(e[3], zvars))
    raise Unsupported("cannot print %r" % (e[:2],))


ABS_F1 = {"exp": "op_exp", "ln": "op_ln", "tanh": "op_tanh", "sin": "op_sin", "cos": "op_cos", "tan": "op_tan",
          "sqrt": "op_sqrt"}


def coq_abs(e, zvars=()):
    """As coq(), with `/`, pow, exp, log, sqrt, tanh, sin, cos, tan taken from o : ops; + - * unary minus,
    literals, abs, sign, max/min and comparisons stay the operations of R."""
    k = e[0]
    if k == "num":
        return gs.coq_num(e[1])
    if k == "v":
        return "(IZR %s)" % e[1] if e[1] in zvars else e[1]
    if k == "neg":
        return "(- %s)" % coq_abs(e[1], zvars)
    if k == "bin":
        if e[1] == "/":
            return "(op_div o %s %s)" % (coq_abs(e[2], zvars), coq_abs(e[3], zvars))
        return "(%s %s %s)" % (coq_abs(e[2], zvars), e[1], coq_abs(e[3], zvars))
    if k == "ind":
        return "(b01 (%s %s %s))" % (CMPS[e[1]], coq_abs(e[2], zvars), coq_abs(e[3], zvars))
    if k == "ite":
        return "(if %s %s %s then %s else %s)" % (CMPS[e[1]], coq_abs(e[2], zvars), coq_abs(e[3], zvars),
                                                coq_abs(e[4], zvars), coq_abs(e[5], zvars))
    if k == "f1":
        if e[1] in ABS_F1:
            return "(%s o %s)" % (ABS_F1[e[1]], coq_abs(e[2], zvars))
        return "(%s %s)" % (F1[e[1]][0], coq_abs(e[2], zvars))
    if k == "f2":
        if e[1] == "pow":
            return "(op_pow o %s %s)" % (coq_abs(e[2], zvars), coq_abs(e[3], zvars))
        return "(%s %s %s)" % (F2[e[1]][0], coq_abs(e[2], zvars), coq_abs(e[3], zvars))
    raise Unsupported("cannot print %r" % (e[:2],))


def py(e):
    k = e[0]
    if k == "num":
        q = e[1]
        return repr(float(q)) if q.denominator != 1 else "%d.0" % q.numerator
    if k == "v":
        return e[1]
    if k == "neg":
        return "(-%s)" % py(e[1])
    if k == "bin":
        if e[1] == "/":
            return "m_div(%s, %s)" % (py(e[2]), py(e[3]))
        return "(%s %s %s)" % (py(e[2]), e[1], py(e[3]))
    if k == "ind":
        return "(1.0 if %s %s %s else 0.0)" % (py(e[2]), e[1], py(e[3]))
    if k == "ite":
        return "(%s if %s %s %s else %s)" % (py(e[4]), py(e[2]), e[1], py(e[3]), py(e[5]))
    if k == "f1":
        return "%s(%s)" % (F1[e[1]][1], py(e[2]))
    if k == "f2":
        return "%s(%s, %s)" % (F2[e[1]][1], py(e[2]), py(e[3]))
    raise Unsupported("cannot print %r as Python" % (e[:2],))


# ------------------------------------------------------------------ common.h macros

ROLE_BY_PARAM = {
    "EIGEN_DEV_FW_X": {0: "x"},
    "EIGEN_DEV_BW_X": {0: "x", 1: "y", 2: "gy"},
    "EIGEN_DEV_FW_X_CONST": {0: "x", 1: "k"},
    "EIGEN_DEV_BW_X_CONST": {0: "x", 1: "y", 2: "gy", 3: "k"},
    "EIGEN_DEV_FW_X_SCALAR": {0: "x", 1: "k"},
    "EIGEN_DEV_FW_AB": {0: "a", 1: "b"},
}
SIG = {
    "EIGEN_DEV_FW_X": ["x"], "EIGEN_DEV_BW_X": ["x", "y", "gy"],
    "EIGEN_DEV_FW_X_CONST": ["x", "k"], "EIGEN_DEV_BW_X_CONST": ["x", "y", "gy", "k"],
    "EIGEN_DEV_FW_X_SCALAR": ["x", "k"], "EIGEN_DEV_FW_AB": ["a", "b"],
}
PTR_RE = re.compile(r"(?:const\s+)?float\s*\*\s*(\w+)\s*=\s*[CM]DATA\((\w+)\)")
ARR_RE = re.compile(r"EMap<\s*const\s+EArrayXf\s*>\s+(\w+)\(\s*(?:CDATA\((\w+)\)|(\w+))\s*,\s*size\s*\)")
SCAL_RE = re.compile(r"const\s+float\s+(\w+)\s*=\s*\*\s*(\w+)\s*;")
UPD_RE = re.compile(r"EMap<\s*EArrayXf\s*>\(\s*(?:MDATA\((\w+)\)|(\w+))\s*,\s*size\s*\)\s*(\+=|-=|=)\s*\(op\)")


def read_macros(text):
    """name -> dict(env=..., update='='|'+='|'-=', dir='fw'|'bw') or {'error': ...}"""
    joined = re.sub(r"\\\n", " ", text)
    macros = {}
    for m in re.finditer(r"#define\s+(EIGEN_DEV_\w+)\(name,\s*op\)\s*(.*)", joined):
        name, body = m.group(1), m.group(2)
        try:
            if name not in ROLE_BY_PARAM:
                raise Unsupported("macro %s: operand roles unknown" % name)
            sig = re.search(r"Eigen::name##_(fw|bw)_impl\s*\(([^)]*)\)", body)
            if not sig:
                raise Unsupported("macro %s: no function signature" % name)
            params, floats = [], []
            for p in gs.split_top(sig.group(2)):
                p = p.strip()
                mm = re.match(r"(?:const\s+)?Tensor\s*&\s*(\w+)$", p)
                if mm:
                    params.append(mm.group(1))
                    continue
                mm = re.match(r"float\s+(\w+)$", p)
                if mm:
                    params.append(mm.group(1))
                    floats.append(mm.group(1))
                    continue
                raise Unsupported("macro %s: parameter %r" % (name, p))
            roles = {params[pos]: r for pos, r in ROLE_BY_PARAM[name].items() if pos < len(params)}
            ptr = {mm.group(1): mm.group(2) for mm in PTR_RE.finditer(body)}
            arr, scalar = {}, {}
            for mm in ARR_RE.finditer(body):
                tensor = mm.group(2) or ptr.get(mm.group(3))
                if tensor not in roles:
                    raise Unsupported("macro %s: array %s maps an unknown tensor" % (name, mm.group(1)))
                arr[mm.group(1)] = roles[tensor]
            for f in floats:
                if f in roles:
                    scalar[f] = roles[f]
            for mm in SCAL_RE.finditer(body):
                tensor = ptr.get(mm.group(2))
                if tensor not in roles:
                    raise Unsupported("macro %s: scalar %s reads an unknown tensor" % (name, mm.group(1)))
                scalar[mm.group(1)] = roles[tensor]
            ups = list(UPD_RE.finditer(body))
            if len(ups) != 1:
                raise Unsupported("macro %s: expected one `EMap<EArrayXf>(..) = (op)` update, found %d" % (name, len(ups)))
            target = ups[0].group(1) or ptr.get(ups[0].group(2))
            if target != params[-1] or target in roles:
                raise Unsupported("macro %s: the updated tensor is not the output parameter" % name)
            want = set(ROLE_BY_PARAM[name].values())
            have = set(arr.values()) | set(scalar.values())
            if have != want:
                raise Unsupported("macro %s: operands bound %s, expected %s" % (name, sorted(have), sorted(want)))
            macros[name] = {"env": {"arr": arr, "scalar": scalar, "ptr": {}, "int": {}}, "update": ups[0].group(3),
                            "dir": sig.group(1)}
        except Unsupported as ex:
            macros[name] = {"error": str(ex)}
    return macros


# ------------------------------------------------------------------ hand-written kernels

def find_function(text, name):
    m = re.search(r"void\s+Eigen::%s\s*\(" % re.escape(name), text)
    if not m:
        raise Unsupported("function %s not found" % name)
    p0 = text.index("(", m.start())
    p1 = gs.balanced(text, p0)
    b0 = text.index("{", p1)
    b1 = gs.balanced(text, b0, "{", "}")
    return text[p0 + 1:p1 - 1], text[b0 + 1:b1 - 1], text.count("\n", 0, m.start()) + 1


def binary_bw(fname, text, fn):
    """add_bw_impl etc.: increments of ga and gb per coefficient as expressions over a b y gy."""
    sig, body, line = find_function(text, fname)
    ps = gs.tensor_params(sig)
    if [k for k, _ in ps] != ["T"] * 6:
        raise Unsupported("%s: expected six tensor parameters" % fname)
    roles = ["a", "b", "y", "gy", "ga", "gb"]
    by_param = {n: r for (k, n), r in zip(ps, roles) if n}
    ptr = {}
    for mm in PTR_RE.finditer(body):
        if mm.group(2) not in by_param:
            raise Unsupported("%s: pointer to unknown tensor %s" % (fname, mm.group(2)))
        ptr[mm.group(1)] = by_param[mm.group(2)]
    ms = list(re.finditer(r"for\s*\(\s*std::uint32_t\s+(\w+)\s*=\s*0\s*;\s*\1\s*<\s*bs\s*;\s*\+\+\1\s*\)\s*\{", body))
    if len(ms) != 1:
        raise Unsupported("%s: expected exactly one batch loop, found %d" % (fname, len(ms)))
    b0 = ms[0].end() - 1
    b1 = gs.balanced(body, b0, "{", "}")
    loop = body[b0 + 1:b1 - 1]
    inputs = ("a", "b", "y", "gy")
    env = {"arr": {}, "scalar": {}, "int": {}, "ptr": {p: r for p, r in ptr.items() if r in inputs}}
    incs = {}
    for st in [" ".join(s.split()) for s in gs.split_top(loop, ";") if s.strip()]:
        mm = re.match(r"EMap<\s*const EArrayXf\s*> (\w+)\(\s*(\w+)\s*,\s*size\s*\)$", st)
        if mm:
            if ptr.get(mm.group(2)) not in inputs:
                raise Unsupported("%s: array %s over %s" % (fname, mm.group(1), mm.group(2)))
            env["arr"][mm.group(1)] = ptr[mm.group(2)]
            continue
        mm = re.match(r"EMap<\s*EArrayXf\s*>\(\s*(\w+)\s*,\s*size\s*\) (\+=|-=) (.*)$", st)
        if mm:
            tgt = ptr.get(mm.group(1))
            if tgt not in ("ga", "gb"):
                raise Unsupported("%s: update of %s" % (fname, mm.group(1)))
            e = elab_array(parse_expr(mm.group(3)), env, fname)
            if mm.group(2) == "-=":
                e = ("neg", e)
            if tgt in incs:
                raise Unsupported("%s: two updates of %s" % (fname, tgt))
            incs[tgt] = e
            continue
        mm = re.match(r"(\w+) \+= (\w+)$", st)
        if mm and mm.group(1) in ptr and (mm.group(2) == "size" or mm.group(2).startswith("skip")):
            continue
        raise Unsupported("%s: statement %r" % (fname, st))
    if set(incs) != {"ga", "gb"}:
        raise Unsupported("%s: updates found for %s" % (fname, sorted(incs)))
    return incs, "%s:%d" % (fn, line)


# ------------------------------------------------------------------ pown (whole-array statements)

def translate_pown(text, fn):
    sig, body, line = find_function(text, "pown_fw_impl")
    ps = gs.tensor_params(sig)
    if [k for k, _ in ps] != ["T", "i32", "T"]:
        raise Unsupported("pown_fw_impl: unexpected signature")
    xin, kname, yout = ps[0][1], ps[1][1], ps[2][1]
    src = body
    src = re.sub(r"const\s+std::size_t\s+size\s*=[^;]*;", "", src)
    m_in = re.search(r"EMap<\s*const\s+EArrayXf\s*>\s+(\w+)\(\s*CDATA\(%s\)\s*,\s*size\s*\)\s*;" % re.escape(xin), src)
    m_out = re.search(r"EMap<\s*EArrayXf\s*>\s+(\w+)\(\s*MDATA\(%s\)\s*,\s*size\s*\)\s*;" % re.escape(yout), src)
    if not m_in or not m_out:
        raise Unsupported("pown_fw_impl: input/output maps not found")
    xa, ya = m_in.group(1), m_out.group(1)
    src = src.replace(m_in.group(0), "").replace(m_out.group(0), "")
    if "EMap" in src:
        raise Unsupported("pown_fw_impl: further maps")
    # whole-array statements -> the scalar statement language of gen_scalar (one coefficient)
    n_set = len(re.findall(r"\b%s\.setConstant\(" % re.escape(ya), src))
    if n_set != 1:
        raise Unsupported("pown_fw_impl: expected one %s.setConstant(..), found %d" % (ya, n_set))
    src = re.sub(r"\b%s\.setConstant\(([^;]*)\)\s*;" % re.escape(ya), r"float %s = \1;" % ya, src)
    src = re.sub(r"\bEArrayXf\s+(\w+)\s*=", r"float \1 =", src)
    if re.search(r"[A-Za-z_)\]]\s*\.\s*[A-Za-z_]", src):
        raise Unsupported("pown_fw_impl: member call in a statement")
    stmts = gs.parse_stmts(src)
    tenv = {kname: "Z", xa: "R"}
    ren = {kname: "k", xa: "x"}
    coq_lines, py_lines, loopdefs, declared = [], [], [], []

    def straight(st, declared):
        if st[0] == "decl":
            _, ty, name, e = st
            pe = gs.py_t(e, tenv, ren)
            if ty == "N" and gs.typed(e, tenv) == "Z":
                pe = "(%s) & 0xFFFFFFFF" % pe
            c = gs.coq_t(e, ty, tenv, ren)
            tenv[name] = ty
            declared.append(name)
            return "let %s := %s in" % (name, c), "%s = %s" % (name, pe)
        if st[0] == "assign":
            _, name, e = st
            if name not in tenv or name in (kname, xa):
                raise Unsupported("pown: assignment to %s" % name)
            ty = tenv[name]
            return "let %s := %s in" % (name, gs.coq_t(e, ty, tenv, ren)), "%s = %s" % (name, gs.py_t(e, tenv, ren))
        if st[0] == "if":
            _, c, (_, name, e) = st
            if name not in tenv or name in (kname, xa):
                raise Unsupported("pown: assignment to %s" % name)
            ty = tenv[name]
            return ("let %s := if %s then %s else %s in" % (name, gs.coq_t(c, "B", tenv, ren), gs.coq_t(e, ty, tenv, ren), name),
                    "%s = %s if %s else %s" % (name, gs.py_t(e, tenv, ren), gs.py_t(c, tenv, ren), name))
        raise Unsupported("pown: statement kind %s" % st[0])

    for st in stmts:
        if st[0] in ("decl", "assign", "if"):
            c, p = straight(st, declared)
            coq_lines.append(c)
            py_lines.append(p)
        elif st[0] == "while":
            _, cond, inner = st
            assigned = []
            for s in inner:
                tgt = s[1] if s[0] == "assign" else (s[2][1] if s[0] == "if" else None)
                if tgt is None:
                    raise Unsupported("pown: statement inside while")
                if tgt not in assigned:
                    assigned.append(tgt)
            state = [v for v in declared if v in assigned]
            if sorted(state) != sorted(assigned):
                raise Unsupported("pown: loop assigns an undeclared variable")
            tys = " * ".join(tenv[v] for v in state)
            pat = "'(%s)" % ", ".join(state)
            blines, plines = [], []
            for s in inner:
                c, p = straight(s, [])
                blines.append(c)
                plines.append(p)
            if loopdefs:
                raise Unsupported("pown: two loops")
            loopdefs.append("Definition epown_loop_cond (st : %s) : bool :=\n  let %s := st in %s." %
                            (tys, pat, gs.coq_t(cond, "B", tenv, ren)))
            loopdefs.append("Definition epown_loop_body (st : %s) : %s :=\n  let %s := st in\n  %s\n  (%s)." %
                            (tys, tys, pat, "\n  ".join(blines), ", ".join(state)))
            coq_lines.append("let %s := while_fuel 32 epown_loop_cond epown_loop_body (%s) in" % (pat, ", ".join(state)))
            py_lines.append("while %s:" % gs.py_t(cond, tenv, ren))
            py_lines += ["    " + p for p in plines]
        else:
            raise Unsupported("pown: %s" % st[0])
    if len(loopdefs) != 2 or tenv.get(ya) != "R":
        raise Unsupported("pown: no result / loop found")
    coqdef = "\n".join(loopdefs) + "\nDefinition efw_pown (x : R) (k : Z) : R :=\n  " + "\n  ".join(coq_lines) + "\n  " + ya + "."
    pydef = "def efw_pown(x, k):\n    " + "\n    ".join(py_lines) + "\n    return " + ya + "\n"
    # backward
    sig2, body2, line2 = find_function(text, "pown_bw_impl")
    ps2 = gs.tensor_params(sig2)
    if [k for k, _ in ps2] != ["T", "T", "T", "i32", "T"]:
        raise Unsupported("pown_bw_impl: unexpected signature")
    roles = {ps2[0][1]: "x", ps2[1][1]: "y", ps2[2][1]: "gy"}
    arr = {}
    for mm in re.finditer(r"EMap<\s*const\s+EArrayXf\s*>\s+(\w+)\(\s*CDATA\((\w+)\)\s*,\s*size\s*\)", body2):
        if mm.group(2) not in roles:
            raise Unsupported("pown_bw_impl: array over %s" % mm.group(2))
        arr[mm.group(1)] = roles[mm.group(2)]
    ups = list(re.finditer(r"EMap<\s*EArrayXf\s*>\(\s*MDATA\((\w+)\)\s*,\s*size\s*\)\s*(\+=|-=)\s*([^;]*);", body2))
    if len(ups) != 1 or ups[0].group(1) != ps2[4][1]:
        raise Unsupported("pown_bw_impl: update statement")
    env = {"arr": arr, "scalar": {}, "int": {ps2[3][1]: "k"}, "ptr": {}}
    e = elab_array(parse_expr(ups[0].group(3)), env, "pown_bw_impl")
    if ups[0].group(2) == "-=":
        e = ("neg", e)
    return coqdef, pydef, e, "%s:%d" % (fn, line), "%s:%d" % (fn, line2)


# ------------------------------------------------------------------ driver

MACRO_RE = re.compile(r"\b(EIGEN_DEV_\w+)\s*\(")
BINARY = ("add.cc", "subtract.cc", "multiply.cc", "divide.cc", "pow.cc")


def guarded(f, *a):
    """Run a translation step; anything unexpected is an untranslatable construct, never a crash."""
    try:
        return f(*a), None
    except Unsupported as ex:
        return None, str(ex)
    except Exception as ex:  # noqa: BLE001  (robustness requirement: report, do not raise)
        return None, "%s: %s" % (type(ex).__name__, ex)


def collect():
    d = ops_dir()
    defs, errors, files = [], [], {}
    try:
        macros = read_macros(gs.strip_comments(open(os.path.join(d, "common.h")).read()))
    except Exception as ex:  # noqa: BLE001
        macros = {}
        errors.append("common.h: %s" % ex)
    for name, m in sorted(macros.items()):
        if "error" in m:
            errors.append("common.h: %s" % m["error"])
    try:
        listing = sorted(f for f in os.listdir(d) if f.endswith(".cc"))
    except OSError as ex:
        listing = []
        errors.append("ops directory: %s" % ex)
    for fn in listing:
        n0 = len(defs)
        try:
            text = gs.strip_comments(open(os.path.join(d, fn)).read())
        except Exception as ex:  # noqa: BLE001
            errors.append("%s: %s" % (fn, ex))
            files[fn[:-3]] = 0
            continue
        for m in MACRO_RE.finditer(text):
            mname = m.group(1)
            line = text.count("\n", 0, m.start()) + 1
            src = "%s:%d" % (fn, line)
            pre = "ebw_" if "_BW_" in mname else "efw_"

            def one():
                p0 = m.end() - 1
                p1 = gs.balanced(text, p0)
                parts = gs.split_top(text[p0 + 1:p1 - 1])
                opname = parts[0].strip()
                if not re.match(r"^\w+$", opname):
                    raise Unsupported("kernel name %r" % opname)
                return opname, parts
            got, err = guarded(one)
            if got is None:
                errors.append("%s %s: %s" % (src, mname, err))
                defs.append({"name": "%s_unnamed_%s_%d" % (pre, fn[:-3], line), "params": ["x"], "expr": None, "src": src,
                             "kind": mname, "error": err, "update": "?"})
                continue
            opname, parts = got

            def two():
                if mname not in macros:
                    raise Unsupported("macro %s not defined in common.h" % mname)
                if "error" in macros[mname]:
                    raise Unsupported(macros[mname]["error"])
                if len(parts) != 2:
                    raise Unsupported("expected (name, expr)")
                e = elab_array(parse_expr(parts[1]), macros[mname]["env"], opname)
                coq(e)
                py(e)
                return e
            e, err = guarded(two)
            if e is None:
                errors.append("%s %s(%s): %s" % (src, mname, opname, err))
                defs.append({"name": pre + opname, "params": SIG.get(mname, ["x"]), "expr": None, "src": src,
                             "kind": mname, "error": err, "update": "?"})
            else:
                defs.append({"name": pre + opname, "params": SIG[mname], "expr": e, "src": src, "kind": mname,
                             "update": macros[mname]["update"]})
        if fn in BINARY:
            op = fn[:-3]
            got, err = guarded(binary_bw, op + "_bw_impl", text, fn)
            for tgt, suffix in (("ga", "_a"), ("gb", "_b")):
                if got is not None:
                    defs.append({"name": "ebw_" + op + suffix, "params": ["a", "b", "y", "gy"], "expr": got[0][tgt],
                                 "src": got[1], "kind": "binary_bw", "update": "+="})
                else:
                    defs.append({"name": "ebw_" + op + suffix, "params": ["a", "b", "y", "gy"], "expr": None,
                                 "src": fn, "kind": "binary_bw", "error": err, "update": "?"})
            if got is None:
                errors.append("%s %s_bw_impl: %s" % (fn, op, err))
        if fn == "pown.cc":
            got, err = guarded(translate_pown, text, fn)
            if got is not None:
                coqdef, pydef, bw, s1, s2 = got
                gs._ABS[0] = True
                try:
                    agot, _ = guarded(translate_pown, text, fn)
                finally:
                    gs._ABS[0] = False
                acoqdef = gs.abs_pown_def(agot[0], "e") if agot is not None else None
                defs.append({"name": "efw_pown", "params": ["x", "k"], "coqdef": coqdef, "pydef": pydef, "src": s1,
                             "kind": "pown_fw", "update": "=", "acoqdef": acoqdef})
                defs.append({"name": "ebw_pown", "params": ["x", "y", "gy", "k"], "expr": bw, "src": s2,
                             "kind": "pown_bw", "zvars": ["k"], "update": "+="})
            else:
                errors.append("pown.cc: %s" % err)
                defs.append({"name": "efw_pown", "params": ["x", "k"], "expr": None, "src": fn, "kind": "pown_fw",
                             "error": err, "update": "?"})
                defs.append({"name": "ebw_pown", "params": ["x", "y", "gy", "k"], "expr": None, "src": fn,
                             "kind": "pown_bw", "error": err, "update": "?"})
        files[fn[:-3]] = len(defs) - n0
    # a name defined twice would make the generated file fail as a whole: keep the first, report the rest
    seen, out = set(), []
    for dd in defs:
        if dd["name"] in seen:
            errors.append("%s: second definition of %s ignored" % (dd["src"], dd["name"]))
            continue
        seen.add(dd["name"])
        out.append(dd)
    return out, errors, files


def coq_string(s):
    s = "".join(c if 32 <= ord(c) <= 126 else "?" for c in s)
    return '"' + s.replace('"', '""') + '"'


def render(defs, errors, files):
    L = []
    w = L.append
    w("(* GENERATED by translate/gen_scalar_eigen.py from primitiv/devices/eigen/ops/{common.h,*.cc} -- do not edit.")
    w("   Regenerated on every `./check C08`; the theorems of PV.Backend.EigenElem are re-checked against it. *)")
    w("From Coq Require Import Reals ZArith NArith List String.")
    w("From PV Require Import Scalar.ScalarBase Backend.EigenBase.")
    w("Import ListNotations.")
    w("Local Open Scope R_scope.")
    w("")
    for d in defs:
        w("(* %s  %s *)" % (d["src"], d["kind"]))
        if d.get("coqdef"):
            w(d["coqdef"])
        elif d.get("expr") is None:
            w("(* NOT TRANSLATED: %s *)" % d.get("error", "").replace("*)", "* )").replace("(*", "( *"))
            w("Definition %s : eigen_untranslatable := EUntranslatable %s." % (d["name"], coq_string(d.get("error", ""))))
        else:
            zv = tuple(d.get("zvars", ()))
            params = " ".join("(%s : %s)" % (p, "Z" if p in zv else "R") for p in d["params"])
            w("Definition %s %s : R :=\n  %s." % (d["name"], params, coq(d["expr"], zv)))
        w("")
    w("(* update operator of each kernel: forward kernels assign, backward kernels accumulate *)")
    w("Definition egen_updates : list (string * string) :=")
    w("  [" + ";\n   ".join('("%s", "%s")' % (d["name"], d.get("update", "?")) for d in defs) + "]%string.")
    w("")
    w("Definition egen_names : list string :=")
    w("  [" + "; ".join('"%s"' % d["name"] for d in defs) + "]%string.")
    w("")
    w("(* every .cc file of primitiv/devices/eigen/ops: those that gave at least one definition above, and the others *)")
    w("Definition egen_elementwise_files : list string :=")
    w("  [" + "; ".join('"%s"' % f for f in sorted(files) if files[f] > 0) + "]%string.")
    w("Definition egen_other_files : list string :=")
    w("  [" + "; ".join('"%s"' % f for f in sorted(files) if files[f] == 0) + "]%string.")
    w("")
    w("Definition egen_translation_errors : nat := %d." % len(errors))
    for e in errors:
        w("(* translation error: %s *)" % e.replace("*)", "* )").replace("(*", "( *"))
    return "\n".join(L) + "\n"


def render_abs(defs, errors):
    L = []
    w = L.append
    w("(* GENERATED by translate/gen_scalar_eigen.py from primitiv/devices/eigen/ops/{common.h,*.cc} -- do not edit.")
    w("   Abstract version of Gen/ScalarGenEigen.v: same parsed trees, `/`, pow, exp, log, sqrt, tanh, sin, cos, tan")
    w("   are the fields of an arbitrary interpretation o : ops.  Regenerated on every `./check C08`. *)")
    w("From Coq Require Import Reals ZArith NArith List String.")
    w("From PV Require Import Scalar.ScalarBase Backend.EigenBase Backend.AbsOps.")
    w("Import ListNotations.")
    w("Local Open Scope R_scope.")
    w("")
    for d in defs:
        w("(* %s  %s *)" % (d["src"], d["kind"]))
        if d.get("coqdef"):
            if d.get("acoqdef"):
                w(d["acoqdef"])
            else:
                w("Definition a%s : eigen_untranslatable := EUntranslatable \"abstract version not printed\"." % d["name"])
        elif d.get("expr") is None:
            w("Definition a%s : eigen_untranslatable := EUntranslatable %s." % (d["name"], coq_string(d.get("error", ""))))
        else:
            zv = tuple(d.get("zvars", ()))
            params = " ".join("(%s : %s)" % (p, "Z" if p in zv else "R") for p in d["params"])
            w("Definition a%s (o : ops) %s : R :=\n  %s." % (d["name"], params, coq_abs(d["expr"], zv)))
        w("")
    w("Definition aegen_names : list string :=")
    w("  [" + "; ".join('"a%s"' % d["name"] for d in defs) + "]%string.")
    return "\n".join(L) + "\n"


def table(defs, errors, files):
    t = {"repo": repo(), "errors": errors, "defs": {}, "files": files}
    for d in defs:
        ent = {"params": d["params"], "src": d["src"], "kind": d["kind"], "update": d.get("update")}
        if d.get("pydef"):
            ent["pydef"] = d["pydef"]
        elif d.get("expr") is not None:
            ent["py"] = py(d["expr"])
            ent["coq"] = coq(d["expr"], tuple(d.get("zvars", ())))
        else:
            ent["error"] = d.get("error")
        t["defs"][d["name"]] = ent
    return t


def main():
    defs, errors, files = collect()
    gs.write_if_changed(OUT_V, render(defs, errors, files))
    try:
        gs.write_if_changed(OUT_ABS_V, render_abs(defs, errors))
    except Exception as ex:  # noqa: BLE001  (never raise: a file that does not define the names breaks the theorems)
        gs.write_if_changed(OUT_ABS_V, "(* GENERATED by translate/gen_scalar_eigen.py: abstract version could not be printed: %s *)\n"
                            % str(ex).replace("*)", "* )"))
    t = table(defs, errors, files)
    gs.write_if_changed(OUT_JSON, json.dumps(t, indent=1, sort_keys=True))
    return t


if __name__ == "__main__":
    t = main()
    print("gen_scalar_eigen: %d definitions, %d translation errors -> %s" % (len(t["defs"]), len(t["errors"]), OUT_V))
    for e in t["errors"]:
        print("  " + e)
