#!/usr/bin/env python3
"""Translator (T) for the `scalar` engine (parts of C01 and C02): regenerates
coq/Gen/ScalarGen.v and _work/gen/scalar_table.json from
<repo>/primitiv/devices/naive/ops/{common.h,*.cc} on every run.

What is read
  * common.h: for each CPUDEV_* macro the parameter list of the generated function, the
    `const float *p = CDATA(t)` bindings (pointer name -> tensor parameter) and the update
    statement (`dest[i] = (op)` / `pgx[i] += (op)`).  The roles of the operands of an
    expression come from there, not from a fixed list of names.
  * every invocation CPUDEV_FW_X / BW_X / FW_X_CONST / BW_X_CONST / FW_X_SCALAR / FW_AB in
    ops/*.cc (they may span several lines),
  * the per-element loop bodies of add_bw / subtract_bw / multiply_bw / divide_bw / pow_bw
    (locals are substituted; `p[i] += e` gives the increment e, `p[i] -= e` gives -(e)),
  * pown.cc: the exponentiation-by-squaring loop (a small statement language: declarations,
    `v op= e`, `if (c) v op= e`, `while (v) {...}`, `dest[i] = e`) and pown_bw,
  * logsumexp.cc: the pairwise update `tmp = ...` of the inner loop and the loop skeleton.

What is written (normalised: the text is printed from the parsed tree with one fixed
parenthesisation, so whitespace / redundant parentheses / literal spelling `.5` vs `0.5`
vs `0.5f` in the C++ do not change the output)
  * fw_<name> / bw_<name> as Gallina terms over R (shallow), ast_<name> as values of the
    deep embedding PV.Scalar.ScalarBase.expr for the numerically stabilised functions,
  * the same formulas as Python expressions (JSON table) for the correspondence run.

C++ semantics assumed by the translation (trusted, see engines/scalar.py):
  float/double arithmetic -> exact real arithmetic; a comparison used as a number -> 1 or 0;
  std::exp/log/tanh/sin/cos/tan/sqrt/abs -> exp/ln/tanh/sin/cos/tan/sqrt/Rabs; std::max/min -> Rmax/Rmin;
  std::pow(a,b) -> Rpower a b = exp (b * ln a)  (meaningful for a > 0 only: the theorems
  carry that hypothesis); int32 k used in float arithmetic -> IZR k.
"""
import json
import os
import re
import sys
from fractions import Fraction

OUT_V = "/verif/coq/Gen/ScalarGen.v"
OUT_JSON = "/verif/_work/gen/scalar_table.json"
# abstract version of every formula (the partial / library operations are fields of a record
# `ops`, see coq/Backend/AbsOps.v); used by the C08 elementwise theorems
OUT_ABS_V = "/verif/coq/Gen/ScalarGenAbs.v"
# inventory of everything under devices/naive/ops (completeness of the translation; see inventory())
OUT_INV_V = "/verif/coq/Gen/ScalarInventory.v"
_ABS = [False]      # coq_t prints `/` as (op_div o a b) while this is set (abstract pown)


class Unsupported(Exception):
    pass


def repo():
    return os.environ.get("PV_REPO", "/repo")


def ops_dir():
    return os.path.join(repo(), "primitiv", "devices", "naive", "ops")


# ------------------------------------------------------------------ lexing / parsing

def strip_comments(s):
    """Remove // and /* */ comments, keep newlines (line numbers stay valid)."""
    out, i, n = [], 0, len(s)
    while i < n:
        if s.startswith("//", i):
            while i < n and s[i] != "\n":
                i += 1
        elif s.startswith("/*", i):
            j = s.find("*/", i + 2)
            j = n if j < 0 else j + 2
            out.append("".join(c if c == "\n" else " " for c in s[i:j]))
            i = j
        elif s[i] == '"':
            j = i + 1
            while j < n and s[j] != '"':
                j += 2 if s[j] == "\\" else 1
            out.append(s[i:j + 1])
            i = j + 1
        else:
            out.append(s[i])
            i += 1
    return "".join(out)


TOK_RE = re.compile(r"""
    (?P<num>(?:\d+\.\d*|\.\d+|\d+)(?:[eE][+-]?\d+)?[fFuUlL]*)
  | (?P<id>[A-Za-z_][A-Za-z0-9_]*(?:::[A-Za-z_][A-Za-z0-9_]*)*)
  | (?P<op>>>=|<<=|<=|>=|==|!=|&&|\|\||\+=|-=|\*=|/=|>>|<<|\+\+|--|[-+*/%<>=!&|^~?:;,(){}\[\]])
  | (?P<ws>\s+)
""", re.X)

INT32_MIN_RE = re.compile(r"std::numeric_limits<\s*std::int32_t\s*>::min\s*\(\s*\)")


def tokenize(src):
    src = INT32_MIN_RE.sub(" INT32_MIN ", src)
    toks, i = [], 0
    while i < len(src):
        m = TOK_RE.match(src, i)
        if not m:
            raise Unsupported("cannot tokenize at: %r" % src[i:i + 30])
        i = m.end()
        if m.lastgroup == "ws":
            continue
        toks.append((m.lastgroup, m.group(m.lastgroup)))
    return toks


def parse_number(text):
    t = text.rstrip("fFuUlL")
    is_float = ("." in t) or ("e" in t.lower()) or text[-1:] in "fF"
    return ("num", Fraction(t), is_float)


class Parser:
    """C++ expression subset -> tuples.
    ('num', Fraction, is_float) ('var', name) ('idx', name, index-expr) ('deref', e) ('neg', e)
    ('not', e) ('bin', op, a, b) ('cmp', op, a, b) ('tern', c, a, b) ('call', fname, [args])"""

    def __init__(self, toks):
        self.t, self.i = toks, 0

    def peek(self, k=0):
        return self.t[self.i + k][1] if self.i + k < len(self.t) else None

    def kind(self):
        return self.t[self.i][0] if self.i < len(self.t) else None

    def eat(self, v=None):
        if self.i >= len(self.t):
            raise Unsupported("unexpected end of expression")
        k, x = self.t[self.i]
        if v is not None and x != v:
            raise Unsupported("expected %r, found %r" % (v, x))
        self.i += 1
        return x

    def done(self):
        return self.i >= len(self.t)

    # precedence climbing, C++ order
    def expr(self):
        return self.ternary()

    def ternary(self):
        c = self.binary(0)
        if self.peek() == "?":
            self.eat("?")
            a = self.expr()
            self.eat(":")
            b = self.ternary()
            return ("tern", c, a, b)
        return c

    LEVELS = [["||"], ["&&"], ["|"], ["^"], ["&"], ["==", "!="], ["<", ">", "<=", ">="],
              ["<<", ">>"], ["+", "-"], ["*", "/", "%"]]

    def binary(self, lvl):
        if lvl == len(self.LEVELS):
            return self.unary()
        a = self.binary(lvl + 1)
        while self.peek() in self.LEVELS[lvl]:
            op = self.eat()
            b = self.binary(lvl + 1)
            a = ("cmp", op, a, b) if op in ("==", "!=", "<", ">", "<=", ">=") else ("bin", op, a, b)
        return a

    def unary(self):
        p = self.peek()
        if p == "-":
            self.eat()
            return ("neg", self.unary())
        if p == "+":
            self.eat()
            return self.unary()
        if p == "!":
            self.eat()
            return ("not", self.unary())
        if p == "*":
            self.eat()
            return ("deref", self.unary())
        return self.postfix()

    def postfix(self):
        k, p = self.kind(), self.peek()
        if k == "num":
            self.eat()
            return parse_number(p)
        if p == "(":
            self.eat("(")
            e = self.expr()
            self.eat(")")
            return e
        if k == "id":
            name = self.eat()
            if self.peek() == "(":
                self.eat("(")
                args = []
                if self.peek() != ")":
                    args.append(self.expr())
                    while self.peek() == ",":
                        self.eat(",")
                        args.append(self.expr())
                self.eat(")")
                return ("call", name, args)
            if self.peek() == "[":
                self.eat("[")
                ix = self.expr()
                self.eat("]")
                return ("idx", name, ix)
            return ("var", name)
        raise Unsupported("unexpected token %r" % (p,))


def parse_expr(text):
    p = Parser(tokenize(text))
    e = p.expr()
    if not p.done():
        raise Unsupported("trailing tokens in expression %r" % text)
    return e


def balanced(s, i, open_="(", close=")"):
    """s[i] == open_; index just after the matching close."""
    depth, j = 0, i
    while j < len(s):
        if s[j] == open_:
            depth += 1
        elif s[j] == close:
            depth -= 1
            if depth == 0:
                return j + 1
        j += 1
    raise Unsupported("unbalanced %s" % open_)


def split_top(s, sep=","):
    parts, depth, cur = [], 0, []
    for ch in s:
        if ch in "([{":
            depth += 1
        elif ch in ")]}":
            depth -= 1
        if ch == sep and depth == 0:
            parts.append("".join(cur))
            cur = []
        else:
            cur.append(ch)
    parts.append("".join(cur))
    return parts


# ------------------------------------------------------------------ roles

def resolve(e, env):
    """Replace C++ operand spellings by role variables ('v', role).
    env: {'ptr': {pointer-name: role}, 'scalar': {name: role}, 'idx': loop index name}"""
    k = e[0]
    if k == "num":
        return e
    if k == "idx":
        if e[1] in env["ptr"] and e[2] == ("var", env["idx"]):
            return ("v", env["ptr"][e[1]])
        raise Unsupported("unknown indexed operand %s[...]" % e[1])
    if k == "deref":
        if e[1][0] == "var" and e[1][1] in env["ptr"]:
            return ("v", env["ptr"][e[1][1]])
        raise Unsupported("unsupported dereference")
    if k == "var":
        if e[1] in env.get("locals", {}):
            return env["locals"][e[1]]
        if e[1] in env["scalar"]:
            return ("v", env["scalar"][e[1]])
        raise Unsupported("unknown variable %s" % e[1])
    if k in ("neg", "not"):
        return (k, resolve(e[1], env))
    if k in ("bin", "cmp"):
        return (k, e[1], resolve(e[2], env), resolve(e[3], env))
    if k == "tern":
        return ("tern", resolve(e[1], env), resolve(e[2], env), resolve(e[3], env))
    if k == "call":
        return ("call", e[1], [resolve(a, env) for a in e[2]])
    raise Unsupported("node %r" % (k,))


# ------------------------------------------------------------------ emitters (type R)

FUN1 = {"std::exp": ("exp", "Fexp", "m_exp"), "std::log": ("ln", "Fln", "m_log"),
        "std::tanh": ("tanh", "Ftanh", "m_tanh"), "std::sin": ("sin", "Fsin", "m_sin"),
        "std::cos": ("cos", "Fcos", "m_cos"), "std::tan": ("tan", "Ftan", "m_tan"),
        "std::sqrt": ("sqrt", "Fsqrt", "m_sqrt"), "std::abs": ("Rabs", "Fabs", "abs"),
        "std::fabs": ("Rabs", "Fabs", "abs")}
FUN2 = {"std::max": ("Rmax", "max"), "std::fmax": ("Rmax", "max"), "std::min": ("Rmin", "min"), "std::fmin": ("Rmin", "min")}
CMP = {">": ("Rgt_dec", "Cgt"), "<": ("Rlt_dec", "Clt"), "<=": ("Rle_dec", "Cle"), ">=": ("Rge_dec", "Cge")}
BIN = {"+": "EAdd", "-": "ESub", "*": "EMul", "/": "EDiv"}


def coq_num(q):
    if q < 0:
        return "(- %s)" % coq_num(-q)
    if q.denominator == 1:
        return "%d" % q.numerator
    return "(%d / %d)" % (q.numerator, q.denominator)


def coq(e, zvars=()):
    """Shallow Gallina term of type R."""
    k = e[0]
    if k == "num":
        return coq_num(e[1])
    if k == "v":
        return "(IZR %s)" % e[1] if e[1] in zvars else e[1]
    if k == "neg":
        return "(- %s)" % coq(e[1], zvars)
    if k == "bin" and e[1] in BIN:
        return "(%s %s %s)" % (coq(e[2], zvars), e[1], coq(e[3], zvars))
    if k == "cmp" and e[1] in CMP:
        return "(b01 (%s %s %s))" % (CMP[e[1]][0], coq(e[2], zvars), coq(e[3], zvars))
    if k == "tern":
        c = e[1]
        if c[0] == "cmp" and c[1] in CMP:
            return "(if %s %s %s then %s else %s)" % (CMP[c[1]][0], coq(c[2], zvars), coq(c[3], zvars),
                                                    coq(e[2], zvars), coq(e[3], zvars))
        raise Unsupported("ternary whose condition is not a float comparison")
    if k == "call":
        if e[1] in FUN1 and len(e[2]) == 1:
            return "(%s %s)" % (FUN1[e[1]][0], coq(e[2][0], zvars))
        if e[1] == "std::pow" and len(e[2]) == 2:
            return "(Rpower %s %s)" % (coq(e[2][0], zvars), coq(e[2][1], zvars))
        if e[1] in FUN2 and len(e[2]) == 2:
            return "(%s %s %s)" % (FUN2[e[1]][0], coq(e[2][0], zvars), coq(e[2][1], zvars))
    raise Unsupported("cannot translate %r to a real-valued term" % (e[:2],))


ABS_FUN1 = {"std::exp": "op_exp", "std::log": "op_ln", "std::tanh": "op_tanh", "std::sin": "op_sin",
            "std::cos": "op_cos", "std::tan": "op_tan", "std::sqrt": "op_sqrt"}


def coq_abs(e, zvars=()):
    """Gallina term of type R over an arbitrary interpretation `o : ops` of the partial / library
    operations: `/`, std::pow, exp, log, sqrt, tanh, sin, cos, tan are fields of o; + - * unary
    minus, literals, abs, max/min and comparisons stay the operations of R."""
    k = e[0]
    if k == "num":
        return coq_num(e[1])
    if k == "v":
        return "(IZR %s)" % e[1] if e[1] in zvars else e[1]
    if k == "neg":
        return "(- %s)" % coq_abs(e[1], zvars)
    if k == "bin" and e[1] in BIN:
        if e[1] == "/":
            return "(op_div o %s %s)" % (coq_abs(e[2], zvars), coq_abs(e[3], zvars))
        return "(%s %s %s)" % (coq_abs(e[2], zvars), e[1], coq_abs(e[3], zvars))
    if k == "cmp" and e[1] in CMP:
        return "(b01 (%s %s %s))" % (CMP[e[1]][0], coq_abs(e[2], zvars), coq_abs(e[3], zvars))
    if k == "tern":
        c = e[1]
        if c[0] == "cmp" and c[1] in CMP:
            return "(if %s %s %s then %s else %s)" % (CMP[c[1]][0], coq_abs(c[2], zvars), coq_abs(c[3], zvars),
                                                    coq_abs(e[2], zvars), coq_abs(e[3], zvars))
        raise Unsupported("ternary whose condition is not a float comparison")
    if k == "call":
        if e[1] in ABS_FUN1 and len(e[2]) == 1:
            return "(%s o %s)" % (ABS_FUN1[e[1]], coq_abs(e[2][0], zvars))
        if e[1] in FUN1 and len(e[2]) == 1:
            return "(%s %s)" % (FUN1[e[1]][0], coq_abs(e[2][0], zvars))
        if e[1] == "std::pow" and len(e[2]) == 2:
            return "(op_pow o %s %s)" % (coq_abs(e[2][0], zvars), coq_abs(e[2][1], zvars))
        if e[1] in FUN2 and len(e[2]) == 2:
            return "(%s %s %s)" % (FUN2[e[1]][0], coq_abs(e[2][0], zvars), coq_abs(e[2][1], zvars))
    raise Unsupported("cannot translate %r to a real-valued term" % (e[:2],))


def abs_pown_def(coqdef, prefix=""):
    """The pown definitions printed while _ABS was set, renamed and given the parameter o."""
    p = prefix
    s = coqdef.replace("Definition %spown_loop_cond (st" % p, "Definition a%spown_loop_cond (o : ops) (st" % p)
    s = s.replace("Definition %spown_loop_body (st" % p, "Definition a%spown_loop_body (o : ops) (st" % p)
    s = s.replace("while_fuel 32 %spown_loop_cond %spown_loop_body" % (p, p),
                  "while_fuel 32 (a%spown_loop_cond o) (a%spown_loop_body o)" % (p, p))
    s = s.replace("Definition %sfw_pown (x : R)" % p, "Definition a%sfw_pown (o : ops) (x : R)" % p)
    return s


def ast(e, order):
    """Deep embedding (PV.Scalar.ScalarBase.expr); variables by position in `order`."""
    k = e[0]
    if k == "num":
        q = e[1]
        if q < 0:
            return "(ENeg %s)" % ast(("num", -q, e[2]), order)
        if q.denominator == 1:
            return "(EInt %d)" % q.numerator
        return "(EFrac %d %d)" % (q.numerator, q.denominator)
    if k == "v":
        return "(EVar %d)" % order.index(e[1])
    if k == "neg":
        return "(ENeg %s)" % ast(e[1], order)
    if k == "bin" and e[1] in BIN:
        return "(%s %s %s)" % (BIN[e[1]], ast(e[2], order), ast(e[3], order))
    if k == "cmp" and e[1] in CMP:
        return "(ECmp %s %s %s)" % (CMP[e[1]][1], ast(e[2], order), ast(e[3], order))
    if k == "tern":
        c = e[1]
        if c[0] == "cmp" and c[1] in CMP:
            return "(EIf %s %s %s %s %s)" % (CMP[c[1]][1], ast(c[2], order), ast(c[3], order),
                                             ast(e[2], order), ast(e[3], order))
    if k == "call":
        if e[1] in FUN1 and len(e[2]) == 1:
            return "(EFun %s %s)" % (FUN1[e[1]][1], ast(e[2][0], order))
        if e[1] == "std::pow" and len(e[2]) == 2:
            return "(EPow %s %s)" % (ast(e[2][0], order), ast(e[2][1], order))
    raise Unsupported("cannot embed %r" % (e[:2],))


def py(e):
    """Python expression over doubles (helpers m_* are defined in engines/scalar.py)."""
    k = e[0]
    if k == "num":
        q = e[1]
        return repr(float(q)) if q.denominator != 1 else "%d.0" % q.numerator
    if k == "v":
        return e[1]
    if k == "neg":
        return "(-%s)" % py(e[1])
    if k == "bin" and e[1] in BIN:
        if e[1] == "/":
            return "m_div(%s, %s)" % (py(e[2]), py(e[3]))
        return "(%s %s %s)" % (py(e[2]), e[1], py(e[3]))
    if k == "cmp" and e[1] in CMP:
        return "(1.0 if %s %s %s else 0.0)" % (py(e[2]), e[1], py(e[3]))
    if k == "tern":
        c = e[1]
        if c[0] == "cmp":
            return "(%s if %s %s %s else %s)" % (py(e[2]), py(c[2]), c[1], py(c[3]), py(e[3]))
    if k == "call":
        if e[1] in FUN1 and len(e[2]) == 1:
            return "%s(%s)" % (FUN1[e[1]][2], py(e[2][0]))
        if e[1] == "std::pow" and len(e[2]) == 2:
            return "m_pow(%s, %s)" % (py(e[2][0]), py(e[2][1]))
        if e[1] in FUN2 and len(e[2]) == 2:
            return "%s(%s, %s)" % (FUN2[e[1]][1], py(e[2][0]), py(e[2][1]))
    raise Unsupported("cannot print %r as Python" % (e[:2],))


def free_vars(e, acc=None):
    acc = set() if acc is None else acc
    if e[0] == "v":
        acc.add(e[1])
    elif e[0] in ("neg", "not"):
        free_vars(e[1], acc)
    elif e[0] in ("bin", "cmp"):
        free_vars(e[2], acc)
        free_vars(e[3], acc)
    elif e[0] == "tern":
        for s in e[1:]:
            free_vars(s, acc)
    elif e[0] == "call":
        for s in e[2]:
            free_vars(s, acc)
    return acc


# ------------------------------------------------------------------ common.h macros

def read_macros(text):
    """name -> dict(params=[tensor/scalar parameter names in order], ptr={pointer: tensor},
    scalars=[float params], update=(target pointer, '=' or '+='))"""
    joined = re.sub(r"\\\n", " ", text)
    macros = {}
    for m in re.finditer(r"#define\s+(CPUDEV_\w+)\(name,\s*op\)\s*(.*)", joined):
        name, body = m.group(1), m.group(2)
        sig = re.search(r"name##_(fw|bw)_impl\s*\(([^)]*)\)", body)
        if not sig:
            raise Unsupported("macro %s: no function signature" % name)
        params, scalars = [], []
        for p in split_top(sig.group(2)):
            p = p.strip()
            mm = re.match(r"(?:const\s+)?Tensor\s*&\s*(\w+)$", p)
            if mm:
                params.append(mm.group(1))
                continue
            mm = re.match(r"float\s+(\w+)$", p)
            if mm:
                params.append(mm.group(1))
                scalars.append(mm.group(1))
                continue
            raise Unsupported("macro %s: parameter %r" % (name, p))
        ptr = {}
        for mm in re.finditer(r"(?:const\s+)?float\s*\*\s*(\w+)\s*=\s*[CM]DATA\((\w+)\)", body):
            ptr[mm.group(1)] = mm.group(2)
        up = re.search(r"REPEAT_OP\(\s*(\w+)\s*,\s*\w+\s*,\s*(\w+)\[\1\]\s*(\+=|-=|=)\s*\(op\)\s*\)", body)
        if not up:
            raise Unsupported("macro %s: no `p[i] = (op)` update found" % name)
        macros[name] = {"params": params, "ptr": ptr, "scalars": scalars, "idx": up.group(1),
                        "update": (up.group(2), up.group(3)), "dir": sig.group(1)}
    return macros


# role names used in the generated definitions, by macro kind and tensor parameter position
ROLE_BY_PARAM = {
    "CPUDEV_FW_X": {0: "x"},
    "CPUDEV_BW_X": {0: "x", 1: "y", 2: "gy"},
    "CPUDEV_FW_X_CONST": {0: "x", 1: "k"},
    "CPUDEV_BW_X_CONST": {0: "x", 1: "y", 2: "gy", 3: "k"},
    "CPUDEV_FW_X_SCALAR": {0: "x", 1: "k"},
    "CPUDEV_FW_AB": {0: "a", 1: "b"},
}
SIG = {
    "CPUDEV_FW_X": ["x"], "CPUDEV_BW_X": ["x", "y", "gy"],
    "CPUDEV_FW_X_CONST": ["x", "k"], "CPUDEV_BW_X_CONST": ["x", "y", "gy", "k"],
    "CPUDEV_FW_X_SCALAR": ["x", "k"], "CPUDEV_FW_AB": ["a", "b"],
}


def macro_env(mname, m):
    roles = ROLE_BY_PARAM[mname]
    by_param = {}
    for pos, pname in enumerate(m["params"]):
        if pos in roles:
            by_param[pname] = roles[pos]
    ptr = {p: by_param[t] for p, t in m["ptr"].items() if t in by_param}
    scalar = {s: by_param[s] for s in m["scalars"] if s in by_param}
    return {"ptr": ptr, "scalar": scalar, "idx": m["idx"]}


# ------------------------------------------------------------------ hand-written kernels

def find_function(text, name):
    m = re.search(r"void\s+Naive::%s\s*\(" % re.escape(name), text)
    if not m:
        raise Unsupported("function %s not found" % name)
    p0 = text.index("(", m.start())
    p1 = balanced(text, p0)
    b0 = text.index("{", p1)
    b1 = balanced(text, b0, "{", "}")
    return text[p0 + 1:p1 - 1], text[b0 + 1:b1 - 1], text.count("\n", 0, m.start()) + 1


def tensor_params(sig):
    """Positional parameters: ('T', name-or-None) for tensors, ('f'|'i32'|'u32', name)."""
    out = []
    for p in split_top(sig):
        p = " ".join(p.split())
        mm = re.match(r"(?:const )?Tensor ?& ?(\w+)?$", p)
        if mm:
            out.append(("T", mm.group(1)))
            continue
        mm = re.match(r"(float|std::int32_t|std::uint32_t) (\w+)$", p)
        if mm:
            out.append(({"float": "f", "std::int32_t": "i32", "std::uint32_t": "u32"}[mm.group(1)], mm.group(2)))
            continue
        raise Unsupported("parameter %r" % p)
    return out


def innermost_elem_loop(body):
    """Body of `for (std::uint32_t i = 0; i < size; ++i) { ... }` (the per-element loop)."""
    ms = list(re.finditer(r"for\s*\(\s*std::uint32_t\s+(\w+)\s*=\s*0\s*;\s*\1\s*<\s*size\s*;\s*\+\+\1\s*\)\s*\{", body))
    if len(ms) != 1:
        raise Unsupported("expected exactly one per-element loop, found %d" % len(ms))
    b0 = ms[0].end() - 1
    b1 = balanced(body, b0, "{", "}")
    return ms[0].group(1), body[b0 + 1:b1 - 1]


def binary_bw(fname, text, path):
    """add_bw_impl etc.: increments of ga and gb per element as expressions over a b y gy."""
    sig, body, line = find_function(text, fname)
    ps = tensor_params(sig)
    if [k for k, _ in ps] != ["T"] * 6:
        raise Unsupported("%s: expected six tensor parameters" % fname)
    roles = ["a", "b", "y", "gy", "ga", "gb"]
    by_param = {n: r for (k, n), r in zip(ps, roles) if n}
    ptr = {}
    for mm in re.finditer(r"(?:const\s+)?float\s*\*\s*(\w+)\s*=\s*[CM]DATA\((\w+)\)", body):
        if mm.group(2) not in by_param:
            raise Unsupported("%s: pointer to unknown tensor %s" % (fname, mm.group(2)))
        ptr[mm.group(1)] = by_param[mm.group(2)]
    idx, loop = innermost_elem_loop(body)
    env = {"ptr": {p: r for p, r in ptr.items() if r in ("a", "b", "y", "gy")}, "scalar": {}, "idx": idx, "locals": {}}
    incs = {}
    for st in [s.strip() for s in split_top(loop, ";") if s.strip()]:
        mm = re.match(r"const\s+float\s+(\w+)\s*=\s*(.*)$", st, re.S)
        if mm:
            env["locals"][mm.group(1)] = resolve(parse_expr(mm.group(2)), env)
            continue
        mm = re.match(r"(\w+)\s*\[\s*%s\s*\]\s*(\+=|-=)\s*(.*)$" % idx, st, re.S)
        if mm and ptr.get(mm.group(1)) in ("ga", "gb"):
            e = resolve(parse_expr(mm.group(3)), env)
            if mm.group(2) == "-=":
                e = ("neg", e)
            tgt = ptr[mm.group(1)]
            if tgt in incs:
                raise Unsupported("%s: two updates of %s" % (fname, tgt))
            incs[tgt] = e
            continue
        raise Unsupported("%s: statement %r" % (fname, st))
    if set(incs) != {"ga", "gb"}:
        raise Unsupported("%s: updates found for %s" % (fname, sorted(incs)))
    return incs, "%s:%d" % (os.path.basename(path), line)


# ------------------------------------------------------------------ pown (statement level)

def typed(e, tenv):
    """Type of a C++ expression: 'R' (float/double), 'Z' (int32), 'N' (uint32), 'B' (bool)."""
    k = e[0]
    if k == "num":
        return "R" if e[2] else "I"       # 'I': integer literal, adapts to the context
    if k == "var":
        if e[1] == "INT32_MIN":
            return "Z"
        if e[1] in tenv:
            return tenv[e[1]]
        raise Unsupported("pown: unknown variable %s" % e[1])
    if k == "idx":
        return "R"
    if k == "neg":
        return typed(e[1], tenv)
    if k == "cmp":
        return "B"
    if k == "bin":
        ta, tb = typed(e[2], tenv), typed(e[3], tenv)
        for t in ("R", "N", "Z"):
            if t in (ta, tb):
                return t
        return "I"
    if k == "tern":
        ta, tb = typed(e[2], tenv), typed(e[3], tenv)
        for t in ("R", "N", "Z"):
            if t in (ta, tb):
                return t
        return "I"
    if k == "call" and e[1] == "std::abs":
        return typed(e[2][0], tenv)
    raise Unsupported("pown: cannot type %r" % (e[:2],))


def coq_t(e, want, tenv, ren):
    """Gallina term of type `want` in {'R','Z','N','B'} for a pown.cc expression."""
    k = e[0]
    have = typed(e, tenv)
    if k == "num":
        q = e[1]
        if want == "R":
            return coq_num(q)
        if q.denominator != 1:
            raise Unsupported("non-integer literal in integer context")
        return "%d%%%s" % (q.numerator, want) if q >= 0 else "(%d)%%%s" % (q.numerator, want)
    if want == "B":
        if k == "cmp":
            ta, tb = typed(e[2], tenv), typed(e[3], tenv)
            t = "R" if "R" in (ta, tb) else ("N" if "N" in (ta, tb) else "Z")
            a, b = coq_t(e[2], t, tenv, ren), coq_t(e[3], t, tenv, ren)
            if t == "R":
                raise Unsupported("float comparison as a statement condition")
            mod = {"Z": "Z", "N": "N"}[t]
            tbl = {"==": "%s.eqb %s %s", ">=": "%s.leb %s %s", "<=": "%s.leb %s %s", "<": "%s.ltb %s %s",
                   ">": "%s.ltb %s %s", "!=": "negb (%s.eqb %s %s)"}
            if e[1] in (">=", ">"):
                a, b = b, a
            return "(" + tbl[e[1]] % (mod, a, b) + ")"
        if have == "N":
            return "(negb (N.eqb %s 0%%N))" % coq_t(e, "N", tenv, ren)
        if have == "Z":
            return "(negb (Z.eqb %s 0%%Z))" % coq_t(e, "Z", tenv, ren)
        raise Unsupported("condition of type %s" % have)
    if have in ("Z",) and want == "N":
        return "(u32_of_Z %s)" % coq_t(e, "Z", tenv, ren)
    if have == "Z" and want == "R":
        return "(IZR %s)" % coq_t(e, "Z", tenv, ren)
    if have not in (want, "I"):
        raise Unsupported("conversion %s -> %s" % (have, want))
    if k == "var":
        if e[1] == "INT32_MIN":
            return "(-2147483648)%Z"
        return ren.get(e[1], e[1])
    if k == "idx":
        return ren["@elem"]
    if k == "neg":
        return "(- %s)%s" % (coq_t(e[1], want, tenv, ren), "" if want == "R" else "%" + want)
    if k == "tern":
        return "(if %s then %s else %s)" % (coq_t(e[1], "B", tenv, ren), coq_t(e[2], want, tenv, ren),
                                            coq_t(e[3], want, tenv, ren))
    if k == "call" and e[1] == "std::abs" and want == "Z":
        return "(Z.abs %s)" % coq_t(e[2][0], "Z", tenv, ren)
    if k == "bin":
        a, b = coq_t(e[2], want, tenv, ren), coq_t(e[3], want, tenv, ren)
        if want == "R" and e[1] == "/" and _ABS[0]:
            return "(op_div o %s %s)" % (a, b)
        if want == "R" and e[1] in "+-*/":
            return "(%s %s %s)" % (a, e[1], b)
        if want == "N":
            f = {"&": "N.land", ">>": "N.shiftr", "+": "N.add", "*": "N.mul"}.get(e[1])
            if f:
                return "(%s %s %s)" % (f, a, b)
        if want == "Z":
            f = {"+": "Z.add", "-": "Z.sub", "*": "Z.mul"}.get(e[1])
            if f:
                return "(%s %s %s)" % (f, a, b)
    raise Unsupported("pown: cannot translate %r at type %s" % (e[:2], want))


def py_t(e, tenv, ren):
    k = e[0]
    if k == "num":
        q = e[1]
        return "%d" % q.numerator if (q.denominator == 1 and not e[2]) else repr(float(q))
    if k == "var":
        return "(-2147483648)" if e[1] == "INT32_MIN" else ren.get(e[1], e[1])
    if k == "idx":
        return ren["@elem"]
    if k == "neg":
        return "(-%s)" % py_t(e[1], tenv, ren)
    if k == "cmp":
        return "(%s %s %s)" % (py_t(e[2], tenv, ren), e[1], py_t(e[3], tenv, ren))
    if k == "tern":
        return "(%s if %s else %s)" % (py_t(e[2], tenv, ren), py_t(e[1], tenv, ren), py_t(e[3], tenv, ren))
    if k == "call" and e[1] == "std::abs":
        return "abs(%s)" % py_t(e[2][0], tenv, ren)
    if k == "bin":
        a, b = py_t(e[2], tenv, ren), py_t(e[3], tenv, ren)
        if e[1] == "/":
            return "m_div(%s, %s)" % (a, b)
        return "(%s %s %s)" % (a, e[1], b)
    raise Unsupported("pown: python for %r" % (e[:2],))


CTYPE = {"float": "R", "std::uint32_t": "N", "std::int32_t": "Z"}


def parse_stmts(src):
    """Statement list of the tiny language used by pown_fw_impl."""
    out, i = [], 0
    src = src.strip()
    while i < len(src):
        if src[i].isspace():
            i += 1
            continue
        m = re.match(r"while\s*\(", src[i:])
        if m:
            p0 = i + m.end() - 1
            p1 = balanced(src, p0)
            b0 = src.index("{", p1)
            b1 = balanced(src, b0, "{", "}")
            out.append(("while", parse_expr(src[p0 + 1:p1 - 1]), parse_stmts(src[b0 + 1:b1 - 1])))
            i = b1
            continue
        m = re.match(r"if\s*\(", src[i:])
        if m:
            p0 = i + m.end() - 1
            p1 = balanced(src, p0)
            j = src.index(";", p1)
            inner = parse_stmts(src[p1:j + 1])
            if len(inner) != 1 or inner[0][0] != "assign":
                raise Unsupported("pown: `if` body must be a single assignment")
            out.append(("if", parse_expr(src[p0 + 1:p1 - 1]), inner[0]))
            i = j + 1
            continue
        j = src.index(";", i)
        st = " ".join(src[i:j].split())
        i = j + 1
        m = re.match(r"(?:const )?(float|std::uint32_t|std::int32_t) (\w+) = (.*)$", st)
        if m:
            out.append(("decl", CTYPE[m.group(1)], m.group(2), parse_expr(m.group(3))))
            continue
        m = re.match(r"(\w+)\[(\w+)\] = (.*)$", st)
        if m:
            out.append(("store", m.group(1), m.group(2), parse_expr(m.group(3))))
            continue
        m = re.match(r"(\w+) (\*=|\+=|-=|/=|>>=|=) (.*)$", st)
        if m:
            rhs = parse_expr(m.group(3))
            if m.group(2) != "=":
                rhs = ("bin", m.group(2)[:-1], ("var", m.group(1)), rhs)
            out.append(("assign", m.group(1), rhs))
            continue
        raise Unsupported("pown: statement %r" % st)
    return out


def translate_pown(text, path):
    sig, body, line = find_function(text, "pown_fw_impl")
    ps = tensor_params(sig)
    if [k for k, _ in ps] != ["T", "i32", "T"]:
        raise Unsupported("pown_fw_impl: unexpected signature")
    kname = ps[1][1]
    ptr = {}
    for mm in re.finditer(r"(?:const\s+)?float\s*\*\s*(\w+)\s*=\s*([CM])DATA\((\w+)\)", body):
        ptr[mm.group(1)] = mm.group(3)
    src_ptr = [p for p, t in ptr.items() if t == ps[0][1]]
    dst_ptr = [p for p, t in ptr.items() if t == ps[2][1]]
    if len(src_ptr) != 1 or len(dst_ptr) != 1:
        raise Unsupported("pown_fw_impl: source/destination pointers")
    idx, loop = innermost_elem_loop(body)
    head = body[:body.index("for")]
    head = re.sub(r"(?:const\s+)?float\s*\*[^;]*;", "", head)
    head = re.sub(r"(?:const\s+)?std::uint32_t\s+size\s*=[^;]*;", "", head)
    pre = parse_stmts(head)
    stmts = parse_stmts(loop)
    tenv = {kname: "Z"}
    ren = {kname: "k", "@elem": "x"}
    coq_lines, py_lines = [], []
    loopdefs = []
    result = None

    def check_elem(e):
        # the only indexed operand allowed is src[i]
        if e[0] == "idx":
            if e[1] != src_ptr[0] or e[2] != ("var", idx):
                raise Unsupported("pown: indexed operand %s" % e[1])
        for s in e[1:]:
            if isinstance(s, tuple):
                check_elem(s)
            elif isinstance(s, list):
                for t in s:
                    check_elem(t)

    def straight(st, declared):
        """one `let` line (Coq) / assignment (Python) for a decl / assign / if statement"""
        if st[0] == "decl":
            _, ty, name, e = st
            check_elem(e)
            pe = py_t(e, tenv, ren)
            if ty == "N" and typed(e, tenv) == "Z":
                pe = "(%s) & 0xFFFFFFFF" % pe      # int32 -> uint32 conversion
            tenv[name] = ty
            declared.append(name)
            return "let %s := %s in" % (name, coq_t(e, ty, tenv, ren)), "%s = %s" % (name, pe)
        if st[0] == "assign":
            _, name, e = st
            check_elem(e)
            ty = tenv[name]
            return "let %s := %s in" % (name, coq_t(e, ty, tenv, ren)), "%s = %s" % (name, py_t(e, tenv, ren))
        if st[0] == "if":
            _, c, (_, name, e) = st
            check_elem(c)
            check_elem(e)
            ty = tenv[name]
            return ("let %s := if %s then %s else %s in" % (name, coq_t(c, "B", tenv, ren), coq_t(e, ty, tenv, ren), name),
                    "%s = %s if %s else %s" % (name, py_t(e, tenv, ren), py_t(c, tenv, ren), name))
        raise Unsupported("pown: statement kind %s" % st[0])

    declared = []
    for st in pre + stmts:
        if st[0] in ("decl", "assign", "if"):
            c, p = straight(st, declared)
            coq_lines.append(c)
            py_lines.append(p)
        elif st[0] == "while":
            _, cond, inner = st
            assigned = []
            for s in inner:
                tgt = s[1] if s[0] == "assign" else (s[2][1] if s[0] == "if" else None)
                if tgt is None:
                    raise Unsupported("pown: statement inside while")
                if tgt not in assigned:
                    assigned.append(tgt)
            state = [v for v in declared if v in assigned]
            if sorted(state) != sorted(assigned):
                raise Unsupported("pown: loop assigns an undeclared variable")
            tys = " * ".join(tenv[v] for v in state)
            pat = "'(%s)" % ", ".join(state)
            blines, plines = [], []
            for s in inner:
                c, p = straight(s, [])
                blines.append(c)
                plines.append(p)
            loopdefs.append("Definition pown_loop_cond (st : %s) : bool :=\n  let %s := st in %s." %
                            (tys, pat, coq_t(cond, "B", tenv, ren)))
            loopdefs.append("Definition pown_loop_body (st : %s) : %s :=\n  let %s := st in\n  %s\n  (%s)." %
                            (tys, tys, pat, "\n  ".join(blines), ", ".join(state)))
            coq_lines.append("let %s := while_fuel 32 pown_loop_cond pown_loop_body (%s) in" % (pat, ", ".join(state)))
            py_lines.append("while %s:" % py_t(cond, tenv, ren))
            py_lines += ["    " + p for p in plines]
        elif st[0] == "store":
            _, p, ix, e = st
            if p != dst_ptr[0] or ix != idx:
                raise Unsupported("pown: store to %s[%s]" % (p, ix))
            check_elem(e)
            result = (coq_t(e, "R", tenv, ren), py_t(e, tenv, ren))
        else:
            raise Unsupported("pown: %s" % st[0])
    if result is None or len(loopdefs) != 2:
        raise Unsupported("pown: no result / loop found")
    coqdef = "\n".join(loopdefs) + "\nDefinition fw_pown (x : R) (k : Z) : R :=\n  " + "\n  ".join(coq_lines) + "\n  " + result[0] + "."
    pydef = "def fw_pown(x, k):\n    " + "\n    ".join(py_lines) + "\n    return " + result[1] + "\n"
    # backward: REPEAT_OP(i, size, pgx[i] += e)
    sig2, body2, line2 = find_function(text, "pown_bw_impl")
    ps2 = tensor_params(sig2)
    if [k for k, _ in ps2] != ["T", "T", "T", "i32", "T"]:
        raise Unsupported("pown_bw_impl: unexpected signature")
    roles = {ps2[0][1]: "x", ps2[1][1]: "y", ps2[2][1]: "gy", ps2[4][1]: "gx"}
    ptr2 = {}
    for mm in re.finditer(r"(?:const\s+)?float\s*\*\s*(\w+)\s*=\s*[CM]DATA\((\w+)\)", body2):
        ptr2[mm.group(1)] = roles[mm.group(2)]
    up = re.search(r"REPEAT_OP\(\s*(\w+)\s*,\s*size\s*,\s*(\w+)\[\1\]\s*(\+=|-=)\s*(.*)\)\s*;", body2, re.S)
    if not up or ptr2.get(up.group(2)) != "gx":
        raise Unsupported("pown_bw_impl: update statement")
    env = {"ptr": {p: r for p, r in ptr2.items() if r != "gx"}, "scalar": {ps2[3][1]: "k"}, "idx": up.group(1)}
    e = resolve(parse_expr(up.group(4)), env)
    if up.group(3) == "-=":
        e = ("neg", e)
    return coqdef, pydef, e, "%s:%d" % (os.path.basename(path), line), "%s:%d" % (os.path.basename(path), line2)


# ------------------------------------------------------------------ logsumexp

def translate_logsumexp(text, path):
    sig, body, line = find_function(text, "logsumexp_fw_impl")
    # skeleton: float tmp = src[offset]; for (j = 1; j < n; ++j) { offset += skip1; float arg = src[offset]; tmp = E; } dest[i] = tmp;
    norm = " ".join(body.split())
    m = re.search(r"float (\w+) = (\w+)\[offset\]; for \(std::uint32_t (\w+) = 1; \3 < n; \+\+\3\) \{ offset \+= skip1; "
                  r"float (\w+) = \2\[offset\]; \1 = (.*?); \} (\w+)\[i\] = \1;", norm)
    skeleton_ok = bool(m)
    if not m:
        raise Unsupported("logsumexp_fw_impl: loop skeleton not recognised")
    acc, arg = m.group(1), m.group(4)
    env = {"ptr": {}, "scalar": {acc: "tmp", arg: "arg"}, "idx": "i"}
    e = resolve(parse_expr(m.group(5)), env)
    return e, skeleton_ok, "%s:%d" % (os.path.basename(path), line)


# ------------------------------------------------------------------ driver

MACRO_RE = re.compile(r"\b(CPUDEV_(?:FW|BW)_(?:X_CONST|X_SCALAR|X|AB))\s*\(")
STABLE_AST = {"fw_softplus", "fw_sigmoid", "bw_softplus", "fw_elu", "fw_logsumexp_step"}


def collect():
    d = ops_dir()
    macros = read_macros(strip_comments(open(os.path.join(d, "common.h")).read()))
    defs = []      # dict(name, params, expr | coqdef, src, kind)
    errors = []
    for fn in sorted(os.listdir(d)):
        if not fn.endswith(".cc"):
            continue
        path = os.path.join(d, fn)
        text = strip_comments(open(path).read())
        for m in MACRO_RE.finditer(text):
            mname = m.group(1)
            p0 = m.end() - 1
            p1 = balanced(text, p0)
            line = text.count("\n", 0, m.start()) + 1
            parts = split_top(text[p0 + 1:p1 - 1])
            opname = parts[0].strip()
            src = "%s:%d" % (fn, line)
            pre = "fw_" if "_FW_" in mname else "bw_"
            try:
                if mname not in macros:
                    raise Unsupported("macro %s not defined in common.h" % mname)
                if len(parts) != 2:
                    raise Unsupported("expected (name, expr)")
                e = resolve(parse_expr(parts[1]), macro_env(mname, macros[mname]))
                coq(e)
                defs.append({"name": pre + opname, "params": SIG[mname], "expr": e, "src": src, "kind": mname,
                             "update": macros[mname]["update"][1]})
            except Unsupported as ex:
                errors.append("%s %s(%s): %s" % (src, mname, opname, ex))
                defs.append({"name": pre + opname, "params": SIG.get(mname, ["x"]), "expr": None, "src": src,
                             "kind": mname, "error": str(ex), "update": "?"})
        if fn in ("add.cc", "subtract.cc", "multiply.cc", "divide.cc", "pow.cc"):
            op = fn[:-3]
            try:
                incs, src = binary_bw(op + "_bw_impl", text, path)
                for tgt, suffix in (("ga", "_a"), ("gb", "_b")):
                    coq(incs[tgt])
                    defs.append({"name": "bw_" + op + suffix, "params": ["a", "b", "y", "gy"], "expr": incs[tgt],
                                 "src": src, "kind": "binary_bw", "update": "+="})
            except Unsupported as ex:
                errors.append("%s %s_bw_impl: %s" % (fn, op, ex))
                for suffix in ("_a", "_b"):
                    defs.append({"name": "bw_" + op + suffix, "params": ["a", "b", "y", "gy"], "expr": None,
                                 "src": fn, "kind": "binary_bw", "error": str(ex), "update": "?"})
        if fn == "pown.cc":
            try:
                coqdef, pydef, bw, s1, s2 = translate_pown(text, path)
                coq(bw, zvars=("k",))
                _ABS[0] = True
                try:
                    acoqdef = abs_pown_def(translate_pown(text, path)[0])
                finally:
                    _ABS[0] = False
                defs.append({"name": "fw_pown", "params": ["x", "k"], "coqdef": coqdef, "pydef": pydef, "src": s1,
                             "kind": "pown_fw", "update": "=", "acoqdef": acoqdef})
                defs.append({"name": "bw_pown", "params": ["x", "y", "gy", "k"], "expr": bw, "src": s2,
                             "kind": "pown_bw", "zvars": ["k"], "update": "+="})
            except Unsupported as ex:
                errors.append("pown.cc: %s" % ex)
                defs.append({"name": "fw_pown", "params": ["x", "k"], "expr": None, "src": fn, "kind": "pown_fw",
                             "error": str(ex), "update": "?"})
                defs.append({"name": "bw_pown", "params": ["x", "y", "gy", "k"], "expr": None, "src": fn,
                             "kind": "pown_bw", "error": str(ex), "update": "?"})
        if fn == "logsumexp.cc":
            try:
                e, ok, src = translate_logsumexp(text, path)
                coq(e)
                defs.append({"name": "fw_logsumexp_step", "params": ["tmp", "arg"], "expr": e, "src": src,
                             "kind": "logsumexp_step", "update": "="})
            except Unsupported as ex:
                errors.append("logsumexp.cc: %s" % ex)
                defs.append({"name": "fw_logsumexp_step", "params": ["tmp", "arg"], "expr": None, "src": fn,
                             "kind": "logsumexp_step", "error": str(ex), "update": "?"})
    return defs, errors


# ------------------------------------------------------------------ inventory (completeness)
#
# The translation above is driven by what it recognises: an invocation of a macro kind it does not
# know, a hand-written kernel function it has no reader for, a whole new file, or text switched
# on/off by the preprocessor would otherwise be ignored in silence.  inventory() lists EVERYTHING
# under devices/naive/ops and says what the translator made of it; Gen/ScalarInventory.v carries that
# as Coq data and Props/Properties_C01_inventory.v requires: no UNKNOWN entry, every invocation and
# every hand-written function of an elementwise file translated, every file outside the translation on
# the reviewed list coq/Scalar/Inventory.v reviewed_kernels (the Coq list is the one that counts; the
# copy below only decides the label), no conditional compilation inside the translated text.

# hand-written kernels that are NOT elementwise formulas (data movement, reductions, products, random
# numbers, memory): modelled by the tensor / random / cow engines, not by this translator
REVIEWED_KERNELS = {        # file -> number of `Naive::` functions it had when reviewed (mirror of the Coq list)
    "argmax.cc": 1, "argmin.cc": 1, "batch_concat.cc": 1, "batch_pick.cc": 2, "batch_slice.cc": 2, "batch_sum.cc": 1,
    "broadcast.cc": 1, "concat.cc": 1, "conv2d.cc": 2, "copy_tensor.cc": 1, "dump_description.cc": 1, "flip.cc": 2,
    "identity.cc": 1, "inplace_add.cc": 1, "inplace_multiply_const.cc": 1, "inplace_subtract.cc": 1, "matmul.cc": 2,
    "max.cc": 2, "max_pool2d.cc": 2, "min.cc": 2, "new_handle.cc": 1, "permute_dims.cc": 2, "pick.cc": 2,
    "random_bernoulli.cc": 1, "random_log_normal.cc": 1, "random_normal.cc": 1, "random_uniform.cc": 1,
    "reset_tensor.cc": 1, "reset_tensor_by_array.cc": 1, "slice.cc": 2, "sum.cc": 1, "tensor_to_vector.cc": 1,
    "transpose.cc": 2}
# helper macros of common.h whose meaning the translation relies on, with their reviewed bodies
# (whitespace-normalised): REPEAT_OP is THE per-element loop, CDATA/MDATA the operand pointers
REVIEWED_HELPERS = {
    "MAYBE_USED(x)": "static_cast<void>(x)",
    "CDATA(x)": "static_cast<const float *>(get_handle(x))",
    "MDATA(x)": "static_cast<float *>(get_mutable_handle(x))",
    "REPEAT_OP(i, n, op)": "for (std::uint32_t i = 0; i < (n); ++i) { (op); }",
}
ANY_CPUDEV_RE = re.compile(r"\b(CPUDEV_\w+)\s*\(")
NAIVE_FN_RE = re.compile(r"\bNaive::(\w+)\s*\(")
DIRECTIVE_RE = re.compile(r"^[ \t]*#[ \t]*(\w+)(.*)$", re.M)
# hand-written functions this translator reads, per file
TRANSLATED_FUNCTIONS = {"add.cc": {"add_bw_impl": ["bw_add_a", "bw_add_b"]}, "subtract.cc": {"subtract_bw_impl": ["bw_subtract_a", "bw_subtract_b"]},
                        "multiply.cc": {"multiply_bw_impl": ["bw_multiply_a", "bw_multiply_b"]}, "divide.cc": {"divide_bw_impl": ["bw_divide_a", "bw_divide_b"]},
                        "pow.cc": {"pow_bw_impl": ["bw_pow_a", "bw_pow_b"]}, "pown.cc": {"pown_fw_impl": ["fw_pown"], "pown_bw_impl": ["bw_pown"]},
                        "logsumexp.cc": {"logsumexp_fw_impl": ["fw_logsumexp_step"]}}


def inventory(defs):
    """-> dict(files=[...], macros=[...], conditionals=[...]) for the current tree (see above)."""
    d = ops_dir()
    ok_defs = {x["name"] for x in defs if x.get("expr") is not None or x.get("coqdef")}
    by_src = {}
    for x in defs:
        by_src.setdefault(x["src"].split(":")[0], []).append(x)
    conds = []
    # ---- common.h: every macro it defines
    raw = open(os.path.join(d, "common.h")).read()
    text = re.sub(r"\\\n", " \v", strip_comments(raw))      # join continuation lines (\v keeps the line count)
    try:
        parsed = read_macros(strip_comments(raw))
    except Unsupported:
        parsed = {}
    macros, seen, guard = [], set(), None
    directives = list(DIRECTIVE_RE.finditer(text))
    for n, m in enumerate(directives):
        kind, rest = m.group(1), " ".join(m.group(2).split())
        line = text.count("\n", 0, m.start()) + text.count("\v", 0, m.start()) + 1
        if kind == "define":
            mm = re.match(r"(\w+)(\([^)]*\))?\s*(.*)$", rest)
            name, params, body = mm.group(1), mm.group(2) or "", mm.group(3)
            if guard is not None and name == guard and n == 1 and not params and not body:
                continue                                     # the include guard
            head = name + " ".join(params.replace(",", ", ").split())
            if name in seen:
                conds.append("common.h:%d: macro %s defined twice" % (line, name))
            seen.add(name)
            if name.startswith("CPUDEV_"):
                cls = "MKind" if (name in parsed and name in ROLE_BY_PARAM) else "MUnknown"
            else:
                cls = "MHelper" if REVIEWED_HELPERS.get(head) == body else "MUnknown"
            macros.append((name, cls))
        elif kind == "ifndef" and n == 0 and len(directives) >= 3 and directives[-1].group(1) == "endif":
            guard = rest.split()[0] if rest else None        # include guard: #ifndef G / #define G / ... / #endif
        elif kind == "endif" and n == len(directives) - 1 and guard is not None:
            continue
        elif kind != "include":
            conds.append("common.h:%d: #%s %s" % (line, kind, rest))
    # ---- every *.cc
    files = []
    for fn in sorted(os.listdir(d)):
        if not fn.endswith(".cc"):
            continue
        text = strip_comments(open(os.path.join(d, fn)).read())
        inv = [m.group(1) for m in ANY_CPUDEV_RE.finditer(text)]
        fns = [m.group(1) for m in NAIVE_FN_RE.finditer(text)]
        mine = by_src.get(fn, [])
        inv_ok = sum(1 for x in mine if x["kind"].startswith("CPUDEV_") and x["name"] in ok_defs)
        tf = TRANSLATED_FUNCTIONS.get(fn, {})
        fn_ok = sum(1 for f in fns if f in tf and all(n in ok_defs for n in tf[f]))
        if inv or any(f in tf for f in fns):
            cls = "FElementwise"
        elif REVIEWED_KERNELS.get(fn) == len(fns):
            cls = "FKernel"
        else:
            cls = "FUnknown"
        files.append({"name": fn, "class": cls, "invocations": len(inv), "invocations_translated": inv_ok,
                      "functions": len(fns), "functions_translated": fn_ok})
        if cls == "FElementwise":
            for m in DIRECTIVE_RE.finditer(text):
                if m.group(1) != "include":
                    conds.append("%s:%d: #%s %s" % (fn, text.count("\n", 0, m.start()) + 1, m.group(1), " ".join(m.group(2).split())))
    others = sorted(f for f in os.listdir(d) if not f.endswith(".cc") and f != "common.h")
    for f in others:
        files.append({"name": f, "class": "FUnknown", "invocations": 0, "invocations_translated": 0, "functions": 0, "functions_translated": 0})
    return {"files": files, "macros": macros, "conditionals": conds}


def inventory_offenders(inv):
    """What breaks the obligation of Props/Properties_C01_inventory.v, in words (for the reports)."""
    out = []
    for f in inv.get("files", []):
        if f["class"] == "FUnknown":
            out.append("%s: UNKNOWN (not an elementwise file the translator reads and not a reviewed kernel with the reviewed "
                       "number of functions: %d CPUDEV_* invocations, %d Naive:: functions)" % (f["name"], f["invocations"], f["functions"]))
        elif f["class"] == "FElementwise" and (f["invocations"] != f["invocations_translated"] or f["functions"] != f["functions_translated"]):
            out.append("%s: %d of %d CPUDEV_* invocations and %d of %d hand-written functions translated"
                       % (f["name"], f["invocations_translated"], f["invocations"], f["functions_translated"], f["functions"]))
    out += ["common.h: macro %s is UNKNOWN (new CPUDEV_* kind, or a helper whose body is not the reviewed text)" % n
            for n, c in inv.get("macros", []) if c == "MUnknown"]
    out += ["preprocessor directive inside the translated text: %s" % c for c in inv.get("conditionals", [])]
    return out


def coq_str(t):
    return '"' + t.replace('"', '""') + '"'


def render_inventory(inv):
    L = []
    w = L.append
    w("(* GENERATED by translate/gen_scalar.py from primitiv/devices/naive/ops/{common.h,*.cc} -- do not edit.")
    w("   Inventory of everything in that directory and what the translator made of it; regenerated on every")
    w("   check.  Obligations: Props/Properties_C01_inventory.v (types and the reviewed list: Scalar/Inventory.v). *)")
    w("From Coq Require Import List String.")
    w("From PV Require Import Scalar.Inventory.")
    w("Import ListNotations.")
    w("Local Open Scope string_scope.")
    w("")
    w("(* file, class, CPUDEV_* invocations, of which translated, hand-written Naive:: functions, of which translated *)")
    w("Definition inv_files : list file_entry :=")
    w("  [" + ";\n   ".join("mk_file %s %s %d %d %d %d" % (coq_str(f["name"]), f["class"], f["invocations"], f["invocations_translated"],
                                                            f["functions"], f["functions_translated"]) for f in inv["files"]) + "].")
    w("")
    w("(* every macro defined in common.h *)")
    w("Definition inv_macros : list (string * macro_class) :=")
    w("  [" + ";\n   ".join("(%s, %s)" % (coq_str(n), c) for n, c in inv["macros"]) + "].")
    w("")
    w("(* preprocessor directives other than #include (and the include guard / the #defines of common.h) inside the translated text *)")
    w("Definition inv_conditionals : list string :=")
    w("  [" + ";\n   ".join(coq_str(c) for c in inv["conditionals"]) + "].")
    return "\n".join(L) + "\n"


def render(defs, errors):
    L = []
    w = L.append
    w("(* GENERATED by translate/gen_scalar.py from %s -- do not edit." % "primitiv/devices/naive/ops/{common.h,*.cc}")
    w("   Regenerated on every check; theorems of PV.Scalar.* are re-checked against it. *)")
    w("From Coq Require Import Reals ZArith NArith List String.")
    w("From PV Require Import Scalar.ScalarBase.")
    w("Import ListNotations.")
    w("Local Open Scope R_scope.")
    w("")
    names = []
    for d in defs:
        names.append(d["name"])
        w("(* %s  %s *)" % (d["src"], d["kind"]))
        if d.get("coqdef"):
            w(d["coqdef"])
        elif d.get("expr") is None:
            # keep the file compiling for every other definition; the obligation about this
            # name is broken on purpose (gen_untranslatable has no inhabitant-producing use)
            w("(* NOT TRANSLATED: %s *)" % d.get("error", "").replace("*)", "* )"))
            w("Definition %s : gen_untranslatable := Untranslatable." % d["name"])
        else:
            zv = tuple(d.get("zvars", ()))
            params = " ".join("(%s : %s)" % (p, "Z" if p in zv else "R") for p in d["params"])
            w("Definition %s %s : R :=\n  %s." % (d["name"], params, coq(d["expr"], zv)))
            if d["name"] in STABLE_AST:
                w("Definition ast_%s : expr :=\n  %s." % (d["name"], ast(d["expr"], d["params"])))
        w("")
    w("(* update operator of each kernel: forward kernels assign, backward kernels accumulate *)")
    w("Definition gen_updates : list (string * string) :=")
    w("  [" + ";\n   ".join('("%s", "%s")' % (d["name"], d.get("update", "?")) for d in defs) + "]%string.")
    w("")
    w("Definition gen_names : list string :=")
    w("  [" + "; ".join('"%s"' % n for n in names) + "]%string.")
    w("")
    w("Definition gen_translation_errors : nat := %d." % len(errors))
    for e in errors:
        w("(* translation error: %s *)" % e.replace("*)", "* )"))
    return "\n".join(L) + "\n"


def render_abs(defs, errors):
    """Gen/ScalarGenAbs.v: a<name> o args, the same trees as Gen/ScalarGen.v with the partial / library
    operations taken from an arbitrary `o : ops` (coq/Backend/AbsOps.v)."""
    L = []
    w = L.append
    w("(* GENERATED by translate/gen_scalar.py from primitiv/devices/naive/ops/{common.h,*.cc} -- do not edit.")
    w("   Abstract version of Gen/ScalarGen.v: same parsed trees, `/`, pow, exp, log, sqrt, tanh, sin, cos, tan")
    w("   are the fields of an arbitrary interpretation o : ops.  Regenerated on every check. *)")
    w("From Coq Require Import Reals ZArith NArith List String.")
    w("From PV Require Import Scalar.ScalarBase Backend.AbsOps.")
    w("Import ListNotations.")
    w("Local Open Scope R_scope.")
    w("")
    for d in defs:
        w("(* %s  %s *)" % (d["src"], d["kind"]))
        if d.get("acoqdef"):
            w(d["acoqdef"])
        elif d.get("expr") is None:
            w("(* NOT TRANSLATED: %s *)" % d.get("error", "").replace("*)", "* )"))
            w("Definition a%s : gen_untranslatable := Untranslatable." % d["name"])
        else:
            zv = tuple(d.get("zvars", ()))
            params = " ".join("(%s : %s)" % (p, "Z" if p in zv else "R") for p in d["params"])
            w("Definition a%s (o : ops) %s : R :=\n  %s." % (d["name"], params, coq_abs(d["expr"], zv)))
        w("")
    w("Definition agen_names : list string :=")
    w("  [" + "; ".join('"a%s"' % d["name"] for d in defs) + "]%string.")
    return "\n".join(L) + "\n"


def table(defs, errors):
    t = {"repo": repo(), "errors": errors, "defs": {}}
    for d in defs:
        ent = {"params": d["params"], "src": d["src"], "kind": d["kind"], "update": d.get("update")}
        if d.get("pydef"):
            ent["pydef"] = d["pydef"]
        elif d.get("expr") is not None:
            ent["py"] = py(d["expr"])
            ent["coq"] = coq(d["expr"], tuple(d.get("zvars", ())))
        else:
            ent["error"] = d.get("error")
        t["defs"][d["name"]] = ent
    return t


def write_if_changed(path, content):
    os.makedirs(os.path.dirname(path), exist_ok=True)
    try:
        if open(path).read() == content:
            return False
    except OSError:
        pass
    tmp = "%s.tmp.%d" % (path, os.getpid())      # concurrent checks regenerate the same file
    with open(tmp, "w") as f:
        f.write(content)
    os.replace(tmp, path)
    return True


def main():
    defs, errors = collect()
    write_if_changed(OUT_V, render(defs, errors))
    try:
        write_if_changed(OUT_ABS_V, render_abs(defs, errors))
    except Exception as ex:  # noqa: BLE001  (the abstract file serves C08 only; never disturb C01/C02)
        write_if_changed(OUT_ABS_V, "(* GENERATED by translate/gen_scalar.py: abstract version could not be printed: %s *)\n"
                         % str(ex).replace("*)", "* )"))
    t = table(defs, errors)
    try:
        inv = inventory(defs)
    except Exception as ex:  # noqa: BLE001  (an inventory that cannot be taken must break its obligation, nothing else)
        inv = {"files": [{"name": "inventory failed: %s" % str(ex)[:200], "class": "FUnknown", "invocations": 0,
                          "invocations_translated": 0, "functions": 0, "functions_translated": 0}], "macros": [], "conditionals": []}
    write_if_changed(OUT_INV_V, render_inventory(inv))
    t["inventory"] = inv
    write_if_changed(OUT_JSON, json.dumps(t, indent=1, sort_keys=True))
    return defs, errors


if __name__ == "__main__":
    ds, errs = main()
    print("gen_scalar: %d definitions, %d translation errors -> %s" % (len(ds), len(errs), OUT_V))
    for e in errs:
        print("  " + e)
