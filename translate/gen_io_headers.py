#!/usr/bin/env python3
"""Regenerates coq/Gen/IoHeaders.v from the CURRENT primitiv/msgpack/writer.h and reader.h.

Writer: for every `operator<<` overload (and write_string), 64-bit branch, every leaf of the
`if (size < (1ull << k)) ... else if ... else` / `switch (size)` tree becomes one row
  mkH <kind> <lo> <hi> <switch selection> <AWrite|AThrow|ABad> [byte expressions] <buf size> <write count>
with the initialiser list of `const char buf[n] {...}` in source order:
  PRIMITIV_UC(0xNN) -> HC n;  PRIMITIV_UC(v >> k) -> HSh k;  PRIMITIV_UC(v) -> HSh 0;
  PRIMITIV_UC(0xNN | (v & 0xMM)) -> HOr n m;  PRIMITIV_UC(type) -> HTy;  anything else -> HBad
(v = the size variable / the scalar argument / the memcpy'd word).  What follows the header
(raw payload, element loop, pair loop, delegation to write_string) is WRITER_PAYS.
Reader: the byte assembly of get_uint16/32/64 (index, shift) and, per overload, the test on the
type byte and where the value / size comes from.

Nothing here compares with an expectation: a construct that is not understood becomes a row with
ABad / HBad / RBadTest / RBadSize / PBadPay, which the theorems of Msgpack/HeadersMatch.v reject.
`rows()` returns the same data for the failing-input search of engines/c13.py.

Reader checks (coq/Gen/IoReaderChecks.v, meaning in Msgpack/ReaderChecks.v): the BODIES of
Reader::check_eof, Reader::read and Reader::check_type as statement trees
  KThrow | KIf <CNotStream|CStreamEof|CObsNeqExp|CBadCond> th el | KStreamRead | KCheckEof | KObsGet8 | KBad
and the member functions in whose definition `is_` occurs (READER_STREAM_USERS).  A statement,
condition, signature or function that is not understood is KBad / CBadCond / UOther."""
import os
import re

REPO = os.environ.get("PV_REPO", "/repo")
OUT = "/verif/coq/Gen/IoHeaders.v"
OUT_CHECKS = "/verif/coq/Gen/IoReaderChecks.v"

KINDS = ["HkNil", "HkBool", "HkU8", "HkU16", "HkU32", "HkU64", "HkI8", "HkI16", "HkI32", "HkI64", "HkF32", "HkF64",
         "HkStr", "HkBin", "HkExt", "HkArr", "HkMap"]
P64 = 1 << 64
SCALAR_SIG = {"std::uint8_t": ("HkU8", 8), "std::uint16_t": ("HkU16", 16), "std::uint32_t": ("HkU32", 32), "std::uint64_t": ("HkU64", 64),
              "std::int8_t": ("HkI8", 8), "std::int16_t": ("HkI16", 16), "std::int32_t": ("HkI32", 32), "std::int64_t": ("HkI64", 64),
              "float": ("HkF32", 32), "double": ("HkF64", 64)}


# ------------------------------------------------------------------ lexing
def strip_comments(s):
    s = re.sub(r"/\*.*?\*/", lambda m: "\n" * m.group(0).count("\n"), s, flags=re.S)
    return re.sub(r"//[^\n]*", "", s)


def preprocess(src, defined=("PRIMITIV_WORDSIZE_64",)):
    """keeps the lines of the active branches of #ifdef/#ifndef/#else/#endif (only `defined` is
    defined); returns (text with the same line numbering, {macro: (params, body)}, problems)"""
    out, stack, macros, problems = [], [], {}, []
    lines = src.split("\n")
    i = 0
    while i < len(lines):
        ln = lines[i]
        s = ln.strip()
        if s.startswith("#"):
            while s.endswith("\\") and i + 1 < len(lines):
                i += 1
                out.append("")
                s = s[:-1] + " " + lines[i].strip()
            m = re.match(r"#\s*(\w+)\s*(.*)", s)
            d, arg = (m.group(1), m.group(2).strip()) if m else ("", "")
            active = all(stack)
            if d == "ifdef":
                stack.append(arg in defined)
            elif d == "ifndef":
                stack.append(arg not in defined)
            elif d == "if":
                problems.append("#if %s" % arg)
                stack.append(True)
            elif d == "else":
                if stack:
                    stack[-1] = not stack[-1]
            elif d == "endif":
                if stack:
                    stack.pop()
            elif d == "define" and active:
                mm = re.match(r"(\w+)\(([^)]*)\)\s*(.*)", arg)
                if mm:
                    macros[mm.group(1)] = (mm.group(2).strip(), mm.group(3).strip())
            out.append("")
        else:
            out.append(ln if all(stack) else "")
        i += 1
    return "\n".join(out), macros, problems


TOK = re.compile(r"\s+|(\"(?:[^\"\\]|\\.)*\")|(0[xX][0-9a-fA-F]+[uUlL]*|\d+[uUlL]*)|([A-Za-z_]\w*)|(<<=|>>=|<<|>>|<=|>=|==|!=|&&|\|\||::|->|\+\+|--|.)", re.S)


def lex(text):
    """[(token, line)]"""
    toks, line, pos = [], 1, 0
    while pos < len(text):
        m = TOK.match(text, pos)
        if not m:
            pos += 1
            continue
        t = m.group(0)
        if not t.isspace():
            toks.append((t, line))
        line += t.count("\n")
        pos = m.end()
    return toks


def match_close(toks, i):
    """index of the token closing the bracket opened at i"""
    op = toks[i][0]
    cl = {"(": ")", "{": "}", "[": "]"}[op]
    depth = 0
    for j in range(i, len(toks)):
        if toks[j][0] == op:
            depth += 1
        elif toks[j][0] == cl:
            depth -= 1
            if depth == 0:
                return j
    raise ValueError("unbalanced %s at line %d" % (op, toks[i][1]))


def txt(toks):
    return " ".join(t for t, _ in toks)


def numlit(t):
    """(value, 64-bit?) of an integer literal token, None otherwise"""
    m = re.match(r"^(0[xX][0-9a-fA-F]+|\d+)([uUlL]*)$", t)
    if not m:
        return None
    return int(m.group(1), 0), ("l" in m.group(2).lower())


# ------------------------------------------------------------------ statements
def parse_stmt(toks, i):
    """one statement starting at i -> (node, next index).  nodes:
    ("if", cond_toks, then, else|None, line)   ("switch", expr_toks, [(label|None, stmts)], line)
    ("block", stmts, line)   ("for", head_toks, body, line)   ("simple", toks, line)"""
    t, line = toks[i]
    if t == "{":
        j = match_close(toks, i)
        return ("block", parse_stmts(toks[i + 1:j]), line), j + 1
    if t == "if":
        j = match_close(toks, i + 1)
        cond = toks[i + 2:j]
        then, k = parse_stmt(toks, j + 1)
        els = None
        if k < len(toks) and toks[k][0] == "else":
            els, k = parse_stmt(toks, k + 1)
        return ("if", cond, then, els, line), k
    if t == "switch":
        j = match_close(toks, i + 1)
        expr = toks[i + 2:j]
        k = match_close(toks, j + 1)
        body = toks[j + 2:k]
        items, p = [], 0
        while p < len(body):
            if body[p][0] == "case":
                q = p + 1
                while body[q][0] != ":":
                    q += 1
                label = body[p + 1:q]
                p = q + 1
            elif body[p][0] == "default" and p + 1 < len(body) and body[p + 1][0] == ":":
                label = None
                p += 2
            else:
                raise ValueError("statement outside a case at line %d" % body[p][1])
            stmts = []
            while p < len(body) and body[p][0] not in ("case", "default"):
                s, p = parse_stmt(body, p)
                stmts.append(s)
            items.append((label, stmts))
        return ("switch", expr, items, line), k + 1
    if t == "for":
        j = match_close(toks, i + 1)
        body, k = parse_stmt(toks, j + 1)
        return ("for", toks[i + 2:j], body, line), k
    j, depth = i, 0
    while j < len(toks):
        c = toks[j][0]
        if c in "({[":
            depth += 1
        elif c in ")}]":
            depth -= 1
        elif c == ";" and depth == 0:
            break
        j += 1
    return ("simple", toks[i:j], line), j + 1


def parse_stmts(toks):
    out, i = [], 0
    while i < len(toks):
        s, i = parse_stmt(toks, i)
        out.append(s)
    return out


def flatten(stmts):
    out = []
    for s in stmts:
        if s[0] == "block":
            out += flatten(s[1])
        elif not (s[0] == "simple" and not s[1]):
            out.append(s)
    return out


def render(s):
    """canonical text of a statement node"""
    if s[0] == "simple":
        return txt(s[1])
    if s[0] == "block":
        return "{ " + " ; ".join(render(x) for x in flatten(s[1])) + " }"
    if s[0] == "for":
        return "for ( " + txt(s[1]) + " ) " + render(s[2])
    if s[0] == "if":
        return "if ( " + txt(s[1]) + " ) " + render(s[2]) + (" else " + render(s[3]) if s[3] else "")
    if s[0] == "switch":
        return "switch ( " + txt(s[1]) + " ) ..."
    return "?"


def functions(toks, cls, names):
    """[(name, param toks, body stmts, line)] of member functions `<cls> &<name>(...) {...}` in order"""
    out, i = [], 0
    while i + 4 < len(toks):
        if toks[i][0] == cls and toks[i + 1][0] == "&":
            if toks[i + 2][0] == "operator" and toks[i + 3][0] in ("<<", ">>") and toks[i + 4][0] == "(":
                name, p = "operator" + toks[i + 3][0], i + 4
            elif toks[i + 2][0] in names and toks[i + 3][0] == "(":
                name, p = toks[i + 2][0], i + 3
            else:
                i += 1
                continue
            q = match_close(toks, p)
            if q + 1 < len(toks) and toks[q + 1][0] == "{":
                e = match_close(toks, q + 1)
                out.append((name, toks[p + 1:q], parse_stmts(toks[q + 2:e]), toks[i][1]))
                i = e + 1
                continue
        i += 1
    return out


# ------------------------------------------------------------------ writer
def byte_expr(e, valvar, tyvar):
    """the argument tokens of PRIMITIV_UC(...) -> byte descriptor"""
    s = [t for t, _ in e]
    if len(s) == 1 and numlit(s[0]):
        return ("HC", numlit(s[0])[0])
    if len(s) == 1 and s[0] == valvar:
        return ("HSh", 0)
    if len(s) == 1 and tyvar and s[0] == tyvar:
        return ("HTy",)
    if len(s) == 3 and s[0] == valvar and s[1] == ">>" and numlit(s[2]):
        return ("HSh", numlit(s[2])[0])
    # 0xNN | (v & 0xMM)
    if len(s) == 7 and numlit(s[0]) and s[1] == "|" and s[2] == "(" and s[3] == valvar and s[4] == "&" and numlit(s[5]) and s[6] == ")":
        return ("HOr", numlit(s[0])[0], numlit(s[5])[0])
    return ("HBad", txt(e))


def buf_decl(s):
    """`const char buf[n] { PRIMITIV_UC(e), ... }` -> (n, [expr toks]) or None"""
    if s[0] != "simple":
        return None
    t = s[1]
    w = [x for x, _ in t]
    if len(w) < 7 or w[:4] != ["const", "char", "buf", "["] or not numlit(w[4]) or w[5] != "]" or w[6] != "{" or w[-1] != "}":
        return None
    inner, items, i = t[7:-1], [], 0
    while i < len(inner):
        if inner[i][0] == ",":
            i += 1
            continue
        if inner[i][0] == "PRIMITIV_UC" and i + 1 < len(inner) and inner[i + 1][0] == "(":
            j = match_close(inner, i + 1)
            items.append(inner[i + 2:j])
            i = j + 1
        else:
            j = i
            while j < len(inner) and inner[j][0] != ",":
                j += 1
            items.append(None)
            i = j
    return numlit(w[4])[0], items


def is_throw(s):
    return s[0] == "simple" and s[1] and s[1][0][0] == "PRIMITIV_THROW_ERROR"


def leaf(stmts, valvar, tyvar, in_switch, boolform=False):
    """statements of a leaf -> (act, bytes, nbuf, nwrite, note)"""
    st = flatten(stmts)
    if in_switch and st and st[-1][0] == "simple" and txt(st[-1][1]) == "break":
        st = st[:-1]
    elif in_switch == "needs-break":
        return ("ABad", [], 0, 0, "case without break")
    if len(st) == 1 and is_throw(st[0]):
        return ("AThrow", [], 0, 0, "")
    if len(st) == 2 and buf_decl(st[0]):
        n, items = buf_decl(st[0])
        bs = [("HBad", "not PRIMITIV_UC(...)") if e is None else byte_expr(e, valvar, tyvar) for e in items]
        w = [x for x, _ in st[1][1]] if st[1][0] == "simple" else []
        if len(w) == 8 and w[:6] == ["os_", ".", "write", "(", "buf", ","] and numlit(w[6]) and w[7] == ")":
            return ("AWrite", bs, n, numlit(w[6])[0], "")
        if boolform and w == ["os_", ".", "write", "(", "&", "buf", "[", "!", "!", valvar, "]", ",", "1", ")"]:
            return ("BOOL", bs, n, 1, "")
        return ("ABad", bs, n, 0, "write statement `%s`" % " ".join(w))
    return ("ABad", [], 0, 0, "leaf at line %d not understood" % (st[0][-1] if st else 0))


def limit_of(cond, valvar):
    """`v < (1ull << k)` / `v < N` -> exclusive limit, else None"""
    s = [t for t, _ in cond]
    if len(s) < 3 or s[0] != valvar or s[1] not in ("<", "<="):
        return None
    r = s[2:]
    if r[0] == "(" and r[-1] == ")":
        r = r[1:-1]
    v = None
    if len(r) == 1 and numlit(r[0]):
        v = numlit(r[0])[0]
    elif len(r) == 3 and numlit(r[0]) and r[1] == "<<" and numlit(r[2]):
        base, wide = numlit(r[0])
        k = numlit(r[2])[0]
        if k >= (64 if wide else 31):
            return None         # overflows the type of the literal
        v = base << k
    if v is None:
        return None
    return v + 1 if s[1] == "<=" else v


def chain(node, kind, lo, hi, valvar, tyvar, rows):
    """rows of an if / else-if / else tree (or a switch, or a leaf) restricted to [lo, hi)"""
    def row(sel, lf, l=lo, h=hi):
        rows.append({"kind": kind, "lo": l, "hi": h, "sel": sel, "act": lf[0], "bytes": lf[1], "nbuf": lf[2], "nwrite": lf[3], "note": lf[4]})
    st = flatten([node])
    if len(st) == 1 and st[0][0] == "if":
        _, cond, then, els, line = st[0]
        lim = limit_of(cond, valvar)
        if lim is None:
            row(("SAll",), ("ABad", [], 0, 0, "condition `%s` at line %d" % (txt(cond), line)))
            return
        lim = max(lo, min(hi, lim))
        if lo < lim:
            chain(then, kind, lo, lim, valvar, tyvar, rows)
        if els is not None and lim < hi:
            chain(els, kind, lim, hi, valvar, tyvar, rows)
        return
    if len(st) == 1 and st[0][0] == "switch":
        _, expr, items, line = st[0]
        if txt(expr) != valvar:
            row(("SAll",), ("ABad", [], 0, 0, "switch (%s) at line %d" % (txt(expr), line)))
            return
        labels = []
        for idx, (label, body) in enumerate(items):
            last = idx == len(items) - 1
            fb = flatten(body)
            has_break = bool(fb) and fb[-1][0] == "simple" and txt(fb[-1][1]) == "break"
            lf = leaf(body, valvar, tyvar, True if (has_break or last) else "needs-break")
            if label is None:
                if not last:
                    lf = ("ABad", [], 0, 0, "default is not the last label")
                row(("SNot", [c for c in labels]), lf)
            else:
                c = numlit(txt(label))
                if c is None:
                    row(("SAll",), ("ABad", [], 0, 0, "case label `%s`" % txt(label)))
                else:
                    labels.append(c[0])
                    row(("SEq", c[0]), lf)
        return
    row(("SAll",), leaf(st, valvar, tyvar, False))


def writer_rows(text):
    toks = lex(text)
    rows, pays, str_entry, notes = [], {}, [], []
    unknown = 0
    for name, params, body, line in functions(toks, "Writer", ("write_string",)):
        sig = txt(params)
        st = flatten(body)
        # drop static_assert and the final `return *this`
        st = [s for s in st if not (s[0] == "simple" and s[1] and s[1][0][0] == "static_assert")]
        ret_this = bool(st) and st[-1][0] == "simple" and txt(st[-1][1]) == "return * this"
        kind = None
        if name == "write_string":
            if sig != "const char * x , std::size_t size".replace("::", " :: "):
                notes.append("write_string(%s)" % sig)
            kind, valvar, tyvar, domain = "HkStr", "size", None, P64
        elif sig == "std :: nullptr_t":
            kind, valvar, tyvar, domain = "HkNil", None, None, 1
        elif sig == "bool x":
            kind, valvar, tyvar, domain = "HkBool", "x", None, 2
        elif sig.replace(" ", "")[:-1] in SCALAR_SIG and sig.endswith(" x"):
            kind, bits = SCALAR_SIG[sig.replace(" ", "")[:-1]]
            valvar, tyvar, domain = "x", None, 1 << bits
        elif sig in ("const char * x", "const std :: string & x"):
            want = "return write_string ( x , std :: strlen ( x ) )" if sig == "const char * x" else "return write_string ( x . data ( ) , x . size ( ) )"
            str_entry.append("PStrDelegate" if (len(st) == 1 and st[0][0] == "simple" and txt(st[0][1]) == want) else "PBadPay")
            continue
        elif sig == "const objects :: Binary & x":
            kind, valvar, tyvar, domain = "HkBin", "size", None, P64
        elif sig == "const objects :: Extension & x":
            kind, valvar, tyvar, domain = "HkExt", "size", "type", P64
        elif sig == "const std :: vector < T > & x":
            kind, valvar, tyvar, domain = "HkArr", "size", None, P64
        elif sig == "const std :: unordered_map < T , U > & x":
            kind, valvar, tyvar, domain = "HkMap", "size", None, P64
        else:
            unknown += 1
            notes.append("overload not understood: operator<<(%s) at line %d" % (sig, line))
            continue
        bad = lambda why: rows.append({"kind": kind, "lo": 0, "hi": domain, "sel": ("SAll",), "act": "ABad", "bytes": [], "nbuf": 0, "nwrite": 0,
                                       "note": "%s (overload at line %d)" % (why, line)})
        if kind in pays:
            bad("second overload of the same kind")
        if not ret_this:
            bad("does not end with `return *this`")
        else:
            st = st[:-1]
        # declarations in front of the header code
        decls = {}
        while st and st[0][0] == "simple":
            w = txt(st[0][1])
            if w == "const std :: size_t size = x . size ( )":
                decls["size"] = True
            elif w == "const std :: int8_t type = x . type ( )":
                decls["type"] = True
            elif w in ("std :: uint32_t y", "std :: uint64_t y"):
                decls["ybits"] = 32 if "32" in w else 64
            elif w in ("std :: memcpy ( & y , & x , sizeof ( float ) )", "std :: memcpy ( & y , & x , sizeof ( double ) )"):
                decls["memcpy"] = 32 if "float" in w else 64
            else:
                break
            st = st[1:]
        if kind in ("HkF32", "HkF64"):
            bits = 32 if kind == "HkF32" else 64
            if decls.get("ybits") == bits and decls.get("memcpy") == bits:
                valvar = "y"
            else:
                bad("float word is not taken by memcpy into a %d-bit y" % bits)
        elif "ybits" in decls or "memcpy" in decls:
            bad("unexpected memcpy")
        if kind in ("HkBin", "HkExt", "HkArr", "HkMap") and not decls.get("size"):
            bad("`size` is not x.size()")
        if kind == "HkExt" and not decls.get("type"):
            bad("`type` is not x.type()")
        if kind != "HkExt" and decls.get("type"):
            bad("unexpected `type`")
        # the header code: an if-chain, or a buffer and a write
        pay = "PNone"
        if st and st[0][0] == "if":
            chain(st[0], kind, 0, domain, valvar, tyvar, rows)
            st = st[1:]
        elif len(st) >= 2 and buf_decl(st[0]):
            lf = leaf(st[:2], valvar, tyvar, False, boolform=(kind == "HkBool"))
            if lf[0] == "BOOL":
                for v, b in enumerate(lf[1]):
                    rows.append({"kind": kind, "lo": v, "hi": v + 1, "sel": ("SAll",), "act": "AWrite", "bytes": [b], "nbuf": 1, "nwrite": 1, "note": ""})
                if len(lf[1]) != 2 or lf[2] != 2:
                    bad("bool buffer is not two bytes")
            else:
                rows.append({"kind": kind, "lo": 0, "hi": domain, "sel": ("SAll",), "act": lf[0], "bytes": lf[1], "nbuf": lf[2], "nwrite": lf[3], "note": lf[4]})
            st = st[2:]
        else:
            bad("no header code found")
        # what follows
        if st:
            w = render(st[0])
            if st[0][0] == "simple" and w in ("os_ . write ( x , size )", "os_ . write ( reinterpret_cast < const char * > ( x . data ( ) ) , size )"):
                pay = "PRaw"
            elif st[0][0] == "for" and w == "for ( const T & elm : x ) * this << elm":
                pay = "PElems"
            elif st[0][0] == "for" and w == "for ( const std :: pair < T , U > & elm : x ) * this << elm . first << elm . second":
                pay = "PPairs"
            else:
                pay = "PBadPay"
                notes.append("after the header of %s: `%s`" % (kind, w))
            if len(st) > 1:
                pay = "PBadPay"
                notes.append("%d more statements after the payload of %s" % (len(st) - 1, kind))
        pays[kind] = pay
    rows.sort(key=lambda r: KINDS.index(r["kind"]))
    return rows, pays, str_entry, unknown, notes


# ------------------------------------------------------------------ reader
def reader_rows(text):
    toks = lex(text)
    gets, rows, notes = [], [], []
    # get_uintN
    i = 0
    while i + 3 < len(toks):
        m = re.match(r"^get_uint(\d+)$", toks[i][0])
        if m and toks[i + 1][0] == "(" and toks[i + 2][0] == ")" and toks[i + 3][0] == "{" and toks[i - 1][0].endswith("_t"):
            e = match_close(toks, i + 3)
            st = flatten(parse_stmts(toks[i + 4:e]))
            gets.append(get_fn(int(m.group(1)), toks[i - 3][0] + toks[i - 2][0] + toks[i - 1][0], st))
            i = e
        i += 1
    kinds = {"std :: nullptr_t": "HkNil", "bool & x": "HkBool", "std :: string & x": "HkStr", "objects :: Binary & x": "HkBin",
             "objects :: Extension & x": "HkExt", "std :: vector < T > & x": "HkArr", "std :: unordered_map < T , U > & x": "HkMap"}
    for k, (kd, _) in SCALAR_SIG.items():
        kinds[k.replace("::", " :: ") + " & x"] = kd
    seen = set()
    unknown = 0
    for name, params, body, line in functions(toks, "Reader", ()):
        sig = txt(params)
        kind = kinds.get(sig)
        if kind is None:
            unknown += 1
            notes.append("overload not understood: operator>>(%s) at line %d" % (sig, line))
            continue
        if kind in seen:
            rows.append({"kind": kind, "test": ("RBadTest",), "size": ("RBadSize",), "note": "second overload"})
        seen.add(kind)
        st = [s for s in flatten(body) if not (s[0] == "simple" and s[1] and s[1][0][0] == "static_assert")]
        rows += reader_overload(kind, st, line)
    rows.sort(key=lambda r: KINDS.index(r["kind"]))
    return gets, rows, unknown, notes


def get_fn(bits, rettype, st):
    """body of get_uintN -> descriptor"""
    g = {"bits": bits, "nbuf": 0, "nread": 0, "terms": [], "note": ""}
    w = [txt(s[1]) if s[0] == "simple" else "?" for s in st]
    if rettype != "std::uint%d_t" % bits:
        g["note"] = "return type %s" % rettype
        return g
    if bits == 8:
        if w == ["const std :: uint8_t c = is_ . get ( )", "check_eof ( )", "return c"]:
            g.update(nbuf=1, nread=1, terms=[(0, 0)])
        else:
            g["note"] = "get_uint8 body"
        return g
    m0 = re.match(r"^std :: uint8_t c \[ (\d+) \]$", w[0]) if w else None
    m1 = re.match(r"^is_ \. read \( reinterpret_cast < char \* > \( c \) , (\d+) \)$", w[1]) if len(w) > 1 else None
    if not (m0 and m1 and len(w) == 4 and w[2] == "check_eof ( )" and w[3].startswith("return ")):
        g["note"] = "get_uint%d body" % bits
        return g
    g["nbuf"], g["nread"] = int(m0.group(1)), int(m1.group(1))
    expr = w[3][len("return "):]
    terms = []
    for part in expr.split(" | "):
        p = part.strip()
        while p.startswith("( ") and p.endswith(" )") and balanced(p[2:-2]):
            p = p[2:-2]
        elem = r"(?:c \[ (\d+) \]|PRIMITIV_ULL \( c \[ (\d+) \] \))"
        mm = re.match("^" + elem + r"(?: << (\d+))?$", p)
        if not mm:
            g["note"] = "term `%s`" % p
            g["terms"] = []
            return g
        idx = int(mm.group(1) if mm.group(1) is not None else mm.group(2))
        wide = mm.group(2) is not None
        sh = int(mm.group(3) or 0)
        if sh >= (64 if wide else 32):
            g["note"] = "shift %d overflows" % sh
            g["terms"] = []
            return g
        terms.append((idx, sh))
    g["terms"] = terms
    return g


def balanced(s):
    d = 0
    for c in s.split():
        if c == "(":
            d += 1
        elif c == ")":
            d -= 1
            if d < 0:
                return False
    return d == 0


def size_src(w, sizevar="size"):
    """`size = <rhs>` -> descriptor"""
    m = re.match(r"^%s = (.*)$" % sizevar, w)
    if not m:
        return ("RBadSize",)
    r = m.group(1)
    if numlit(r):
        return ("RFix", numlit(r)[0])
    mm = re.match(r"^get_uint(\d+) \( \)$", r)
    if mm:
        return ("RGet", int(mm.group(1)))
    mm = re.match(r"^type & (\w+)$", r)
    if mm and numlit(mm.group(1)):
        return ("RAnd", numlit(mm.group(1))[0])
    return ("RBadSize",)


def switch_rows(kind, sw, rows):
    _, expr, items, line = sw
    if txt(expr) != "type":
        rows.append({"kind": kind, "test": ("RBadTest",), "size": ("RBadSize",), "note": "switch (%s)" % txt(expr)})
        return
    for idx, (label, body) in enumerate(items):
        fb = flatten(body)
        if label is None:
            if not (idx == len(items) - 1 and len(fb) == 1 and is_throw(fb[0])):
                rows.append({"kind": kind, "test": ("RBadTest",), "size": ("RBadSize",), "note": "default does not throw"})
            continue
        c = numlit(txt(label))
        w = [txt(s[1]) if s[0] == "simple" else "?" for s in fb]
        if c is None or len(w) != 2 or w[1] != "break":
            rows.append({"kind": kind, "test": ("RBadTest",), "size": ("RBadSize",), "note": "case `%s`" % txt(label)})
            continue
        rows.append({"kind": kind, "test": ("RCase", c[0]), "size": size_src(w[0]), "note": ""})
    if not items or items[-1][0] is not None:
        rows.append({"kind": kind, "test": ("RBadTest",), "size": ("RBadSize",), "note": "switch without default"})


def reader_overload(kind, st, line):
    rows = []
    bad = lambda why: rows.append({"kind": kind, "test": ("RBadTest",), "size": ("RBadSize",), "note": "%s (overload at line %d)" % (why, line)})
    w = [txt(s[1]) if s[0] == "simple" else s[0] for s in st]
    if not w or w[-1] != "return * this":
        bad("does not end with `return *this`")
        return rows
    w, st = w[:-1], st[:-1]
    m = re.match(r"^check_type \( (\w+) \)$", w[0]) if w else None
    if m and numlit(m.group(1)):
        t = numlit(m.group(1))[0]
        rest = w[1:]
        bits = {"HkU8": 8, "HkU16": 16, "HkU32": 32, "HkU64": 64, "HkI8": 8, "HkI16": 16, "HkI32": 32, "HkI64": 64, "HkF32": 32, "HkF64": 64}.get(kind)
        if kind == "HkNil" and rest == []:
            rows.append({"kind": kind, "test": ("RCheck", t), "size": ("RNone",), "note": ""})
        elif bits and kind[2] in "UI" and len(rest) == 1 and re.match(r"^x = get_uint(\d+) \( \)$", rest[0]):
            rows.append({"kind": kind, "test": ("RCheck", t), "size": ("RGet", int(re.match(r"^x = get_uint(\d+)", rest[0]).group(1))), "note": ""})
        elif bits and kind[2] == "F" and len(rest) == 2 and re.match(r"^const std :: uint%d_t y = get_uint(\d+) \( \)$" % bits, rest[0]) \
                and rest[1] == "std :: memcpy ( & x , & y , sizeof ( %s ) )" % ("float" if bits == 32 else "double"):
            rows.append({"kind": kind, "test": ("RCheck", t), "size": ("RGet", int(re.match(r".*get_uint(\d+)", rest[0]).group(1))), "note": ""})
        else:
            bad("statements after check_type: %s" % rest)
        return rows
    if not w or w[0] != "const std :: uint8_t type = get_uint8 ( )":
        bad("type byte is not read by get_uint8()")
        return rows
    w, st = w[1:], st[1:]
    if kind == "HkBool":
        ok = len(st) == 1 and st[0][0] == "if"
        if ok:
            _, cond, then, els, _ = st[0]
            mm = re.match(r"^\( type & (\w+) \) == (\w+)$", txt(cond))
            tb = [txt(s[1]) if s[0] == "simple" else "?" for s in flatten([then])]
            eb = flatten([els]) if els else []
            mt = re.match(r"^x = static_cast < bool > \( type & (\w+) \)$", tb[0]) if len(tb) == 1 else None
            if mm and numlit(mm.group(1)) and numlit(mm.group(2)) and mt and numlit(mt.group(1)) and len(eb) == 1 and is_throw(eb[0]):
                rows.append({"kind": kind, "test": ("RMask", numlit(mm.group(1))[0], numlit(mm.group(2))[0]), "size": ("RAnd", numlit(mt.group(1))[0]), "note": ""})
                return rows
        bad("bool body")
        return rows
    if not w or w[0] != "std :: size_t size":
        bad("no `std::size_t size`")
        return rows
    w, st = w[1:], st[1:]
    if not st:
        bad("no size code")
        return rows
    if st[0][0] == "switch":
        switch_rows(kind, st[0], rows)
    elif st[0][0] == "if":
        _, cond, then, els, _ = st[0]
        mm = re.match(r"^\( type & (\w+) \) == (\w+)$", txt(cond))
        tb = [txt(s[1]) if s[0] == "simple" else "?" for s in flatten([then])]
        eb = flatten([els]) if els else []
        if mm and numlit(mm.group(1)) and numlit(mm.group(2)) and len(tb) == 1 and len(eb) == 1 and eb[0][0] == "switch":
            rows.append({"kind": kind, "test": ("RMask", numlit(mm.group(1))[0], numlit(mm.group(2))[0]), "size": size_src(tb[0]), "note": ""})
            switch_rows(kind, eb[0], rows)
        else:
            bad("if (%s)" % txt(cond))
    else:
        bad("size code is neither a switch nor an if")
    # what consumes `size` afterwards: recorded as text, compared as a whole
    tail = " ; ".join(render(x) for x in st[1:])
    want = {
        "HkStr": "std :: string ret ( size , 0 ) ; read ( & ret [ 0 ] , size ) ; x = std :: move ( ret )",
        "HkBin": "objects :: Binary ret ; read ( ret . allocate ( size ) , size ) ; x = std :: move ( ret )",
        "HkExt": "objects :: Extension ret ; read ( ret . allocate ( get_uint8 ( ) , size ) , size ) ; x = std :: move ( ret )",
        "HkArr": "std :: vector < T > ret ( size ) ; for ( size_t i = 0 ; i < size ; ++ i ) * this >> ret [ i ] ; x = std :: move ( ret )",
        "HkMap": "std :: unordered_map < T , U > ret ; T key = T ( ) ; U value = U ( ) ; for ( size_t i = 0 ; i < size ; ++ i ) { * this >> key ; * this >> value ; ret . emplace ( std :: move ( key ) , std :: move ( value ) ) } ; x = std :: move ( ret )",
    }.get(kind)
    if tail != want:
        bad("after the size: `%s`" % tail)
    return rows


# ------------------------------------------------------------------ reader checks
def member_functions(toks, cls):
    """every member function DEFINITION of `class <cls>`: [(name, param toks, tokens between `)` and `{`,
    body toks, tokens in front of the name back to the previous `;` / `}` / `:`, line)], source order"""
    i = 0
    while i + 1 < len(toks) and not (toks[i][0] == "class" and toks[i + 1][0] == cls):
        i += 1
    while i < len(toks) and toks[i][0] != "{":
        if toks[i][0] == ";":
            raise ValueError("class %s is only declared" % cls)
        i += 1
    if i >= len(toks):
        raise ValueError("class %s not found" % cls)
    end = match_close(toks, i)
    out, p, start = [], i + 1, i + 1
    while p < end:
        t = toks[p][0]
        if t in (";", "}"):
            start = p + 1
        elif t == ":" and toks[p - 1][0] in ("public", "private", "protected"):
            start = p + 1
        if t == "{":                      # a brace that is not a function body (nested type, initialiser)
            p = match_close(toks, p) + 1
            start = p
            continue
        if t == "(" and p > start:
            q = match_close(toks, p)
            if toks[p - 1][0] in ("<<", ">>") and toks[p - 2][0] == "operator":
                name, head = "operator" + toks[p - 1][0], toks[start:p - 2]
            else:
                name, head = toks[p - 1][0], toks[start:p - 1]
            k = q + 1
            while k < end and toks[k][0] not in ("{", ";"):
                k = match_close(toks, k) + 1 if toks[k][0] == "(" else k + 1
            if k < end and toks[k][0] == "{" and re.match(r"^[A-Za-z_]\w*$|^operator", name):
                e = match_close(toks, k)
                out.append((name, toks[p + 1:q], toks[q + 1:k], toks[k + 1:e], head, toks[p][1]))
                p = e + 1
                start = p
                continue
            p = q + 1
            continue
        p += 1
    return out


def cstm(stmts, fn):
    """statements of the body of `fn` -> Coq term of type cstm (Msgpack/ReaderChecks.v)"""
    def cond(c):
        w = txt(c)
        return {"! is_": "CNotStream", "is_ . eof ( )": "CStreamEof", "observed != expected": "CObsNeqExp"}.get(w, "CBadCond")

    def one(s):
        if is_throw(s):
            return "KThrow"
        if s[0] == "simple":
            w = txt(s[1])
            if fn == "read" and w == "is_ . read ( ptr , size )":
                return "KStreamRead"
            if w == "check_eof ( )":
                return "KCheckEof"
            if fn == "check_type" and w in ("std :: uint8_t observed = get_uint8 ( )", "const std :: uint8_t observed = get_uint8 ( )"):
                return "KObsGet8"
            return "KBad"
        if s[0] == "if":
            _, c, then, els, _ = s
            return "KIf %s (%s) %s" % (cond(c), cstm([then], fn), "(%s)" % cstm([els], fn) if els is not None else "KSkip")
        return "KBad"
    return "kseq [%s]" % "; ".join(one(s) for s in flatten(stmts))


CHECK_SIGS = {"check_eof": ("void", ""), "read": ("void", "char * ptr , std :: size_t size"), "check_type": ("void", "std :: uint8_t expected")}


def reader_checks(text):
    """{"check_eof"|"read"|"check_type": Coq cstm term, "users": [suser terms], "notes": [...]}"""
    toks = lex(text)
    res = {"check_eof": "KBad", "read": "KBad", "check_type": "KBad", "users": [], "notes": []}
    seen = {}
    for name, params, mid, body, head, line in member_functions(toks, "Reader"):
        touches = any(t == "is_" for t, _ in params + mid + body)
        if name in CHECK_SIGS:
            seen[name] = seen.get(name, 0) + 1
            ret, want = CHECK_SIGS[name]
            if seen[name] > 1:
                res[name] = "KBad"
                res["notes"].append("second definition of %s at line %d" % (name, line))
            elif txt(head) != ret or txt(params) != want or mid:
                res["notes"].append("signature `%s %s(%s) %s` at line %d" % (txt(head), name, txt(params), txt(mid), line))
            else:
                try:
                    res[name] = cstm(parse_stmts(body), name)
                except Exception as e:      # the body does not parse as statements
                    res["notes"].append("%s: %s: %s" % (name, type(e).__name__, e))
                if "KBad" in res[name] or "CBadCond" in res[name]:
                    res["notes"].append("body of %s at line %d not understood: `%s`" % (name, line, txt(body)[:200]))
        if touches:
            m = re.match(r"^get_uint(\d+)$", name)
            u = {"check_eof": "UCheckEof", "read": "URead", "Reader": "UCtor"}.get(name) or ("UGet %s" % m.group(1) if m else None)
            if u is None:
                u = "UOther"
                res["notes"].append("`is_` is used in %s at line %d" % (name, line))
            res["users"].append(u)
    for name in CHECK_SIGS:
        if name not in seen:
            res["notes"].append("no definition of Reader::%s" % name)
    return res


# ------------------------------------------------------------------ output
def coq_byte(b):
    if b[0] == "HC":
        return "HC %d" % b[1]
    if b[0] == "HSh":
        return "HSh %d" % b[1]
    if b[0] == "HOr":
        return "HOr %d %d" % (b[1], b[2])
    if b[0] == "HTy":
        return "HTy"
    return "HBad"


def coq_sel(s):
    if s[0] == "SEq":
        return "(SEq %d)" % s[1]
    if s[0] == "SNot":
        return "(SNot [%s])" % "; ".join(map(str, s[1]))
    return "SAll"


def coq_row(r):
    return "mkH %s %d %d %s %s [%s] %d %d" % (r["kind"], r["lo"], r["hi"], coq_sel(r["sel"]), r["act"] if r["act"] in ("AWrite", "AThrow") else "ABad",
                                               "; ".join(coq_byte(b) for b in r["bytes"]), r["nbuf"], r["nwrite"])


def coq_test(t):
    return {"RCheck": "(RCheck %d)", "RMask": "(RMask %d %d)", "RCase": "(RCase %d)", "RBadTest": "RBadTest"}[t[0]] % tuple(t[1:])


def coq_size(s):
    return {"RNone": "RNone", "RFix": "(RFix %d)", "RAnd": "(RAnd %d)", "RGet": "(RGet %d)", "RBadSize": "RBadSize"}[s[0]] % tuple(s[1:])


def rows():
    """(writer rows, writer payloads, reader gets, reader rows, notes) from the current tree"""
    notes = []
    try:
        wsrc, wmac, wprob = preprocess(strip_comments(open(os.path.join(REPO, "primitiv/msgpack/writer.h")).read()))
        uc_ok = wmac.get("PRIMITIV_UC") == ("expr", "static_cast<char>(expr)") and not wprob
        wr, pays, str_entry, wunknown, n1 = writer_rows(wsrc)
        notes += n1 + wprob
    except Exception as e:      # the file no longer has a shape the translator can read at all
        wr, pays, str_entry, wunknown, uc_ok = [], {}, [], 1, False
        notes.append("writer.h: %s: %s" % (type(e).__name__, e))
    try:
        rsrc, rmac, rprob = preprocess(strip_comments(open(os.path.join(REPO, "primitiv/msgpack/reader.h")).read()))
        ull_ok = rmac.get("PRIMITIV_ULL") == ("expr", "static_cast<std::uint64_t>(expr)") and not rprob
        gets, rr, runknown, n2 = reader_rows(rsrc)
        notes += n2 + rprob
    except Exception as e:
        gets, rr, runknown, ull_ok = [], [], 1, False
        notes.append("reader.h: %s: %s" % (type(e).__name__, e))
    try:
        checks = reader_checks(rsrc)
    except Exception as e:
        checks = {"check_eof": "KBad", "read": "KBad", "check_type": "KBad", "users": ["UOther"],
                  "notes": ["reader.h (check_eof / read / check_type): %s: %s" % (type(e).__name__, e)]}
    return {"writer": wr, "pays": pays, "str_entry": str_entry, "writer_unknown": wunknown, "uc_ok": uc_ok,
            "gets": gets, "reader": rr, "reader_unknown": runknown, "ull_ok": ull_ok, "notes": notes, "checks": checks}


def main():
    d = rows()
    L = ["(* GENERATED by translate/gen_io_headers.py from msgpack/writer.h and msgpack/reader.h -- do not edit *)",
         "From Coq Require Import NArith List.", "From PV Require Import Msgpack.HeaderRows Msgpack.ReaderRows.",
         "Import ListNotations.", "Local Open Scope N_scope.", ""]
    for n in d["notes"]:
        L.append("(* note: %s *)" % n.replace("(*", "( *").replace("*)", "* )"))
    L.append("Definition WRITER_ROWS : list hrow := [")
    L.append(";\n".join("  " + coq_row(r) + ("   (* %s *)" % r["note"].replace("*)", "* )").replace("(*", "( *") if r["note"] else "") for r in d["writer"]))
    L.append("].")
    L.append("Definition WRITER_PAYS : list (hkind * hpay) := [%s]." % "; ".join("(%s, %s)" % (k, d["pays"][k]) for k in KINDS if k in d["pays"]))
    L.append("Definition WRITER_STR_ENTRY : list hpay := [%s].   (* the two public string overloads *)" % "; ".join(d["str_entry"]))
    L.append("Definition WRITER_UNKNOWN : N := %d.   (* overloads the translator has no kind for *)" % d["writer_unknown"])
    L.append("Definition WRITER_UC_IS_CHAR_CAST : bool := %s.   (* #define PRIMITIV_UC(expr) static_cast<char>(expr) *)" % ("true" if d["uc_ok"] else "false"))
    L.append("")
    L.append("Definition READER_GETS : list rget := [")
    L.append(";\n".join("  mkG %d %d %d [%s]" % (g["bits"], g["nbuf"], g["nread"], "; ".join("(%d, %d)" % t for t in g["terms"])) +
                        ("   (* %s *)" % g["note"] if g["note"] else "") for g in d["gets"]))
    L.append("].")
    L.append("Definition READER_ROWS : list rrow := [")
    L.append(";\n".join("  mkR %s %s %s" % (r["kind"], coq_test(r["test"]), coq_size(r["size"])) +
                        ("   (* %s *)" % r["note"].replace("*)", "* )").replace("(*", "( *") if r["note"] else "") for r in d["reader"]))
    L.append("].")
    L.append("Definition READER_UNKNOWN : N := %d." % d["reader_unknown"])
    L.append("Definition READER_ULL_IS_U64_CAST : bool := %s.   (* #define PRIMITIV_ULL(expr) static_cast<std::uint64_t>(expr) *)" % ("true" if d["ull_ok"] else "false"))
    d["written"] = [OUT] if write_if_changed(OUT, "\n".join(L) + "\n") else []
    c = d["checks"]
    cmt = lambda n: "(* note: %s *)" % n.replace("(*", "( *").replace("*)", "* )")
    C = ["(* GENERATED by translate/gen_io_headers.py from msgpack/reader.h -- do not edit *)",
         "From Coq Require Import NArith List.", "From PV Require Import Msgpack.ReaderChecks.",
         "Import ListNotations.", "Local Open Scope N_scope.", ""] + [cmt(n) for n in c["notes"]] + [
         "Definition READER_CHECK_EOF : cstm := %s.   (* body of void check_eof() *)" % c["check_eof"],
         "Definition READER_READ : cstm := %s.   (* body of void read(char *ptr, std::size_t size) *)" % c["read"],
         "Definition READER_CHECK_TYPE : cstm := %s.   (* body of void check_type(std::uint8_t expected) *)" % c["check_type"],
         "Definition READER_STREAM_USERS : list suser := [%s].   (* member functions that mention is_ *)" % "; ".join(c["users"])]
    if write_if_changed(OUT_CHECKS, "\n".join(C) + "\n"):
        d["written"].append(OUT_CHECKS)
    return d


def write_if_changed(path, new):
    """atomic (rename of a private temporary file); untouched when the content is the same.
    Returns whether the file had to be written."""
    os.makedirs(os.path.dirname(path), exist_ok=True)
    try:
        if open(path).read() == new:
            return False
    except OSError:
        pass
    tmp = "%s.%d.tmp" % (path, os.getpid())
    with open(tmp, "w") as f:
        f.write(new)
    os.replace(tmp, path)
    return True


if __name__ == "__main__":
    r = main()
    print("%d writer rows, %d reader rows, %d get functions; notes: %s; reader checks: %s" % (len(r["writer"]), len(r["reader"]), len(r["gets"]), r["notes"], r["checks"]))
