#!/usr/bin/env python3
"""Translator (T) for C19, mixins: primitiv/core/mixins/{identifiable,default_settable}.h ->
coq/Gen/MixinsGen.v.

The two class templates are instantiated in a three-line translation unit (so that clang
resolves every call) and the bodies of Identifiable's constructor (member initializers
included, in initialization order), destructor and get_object and of DefaultSettable's
destructor, get_default and set_default are written as instruction lists of
coq/Spin/MixLang.v.  The scope of a std::lock_guard is made explicit: MLock where it is
declared, MUnlock at the end of the block that declares it.  Comments, whitespace, null
statements and the names of locals do not matter.  Anything not recognised makes the
translator fail loudly."""
import json
import os
import subprocess
import sys
import tempfile

ROOT = "/verif"
OUT = os.path.join(ROOT, "coq", "Gen", "MixinsGen.v")

TU = """#include <primitiv/core/mixins/identifiable.h>
#include <primitiv/core/mixins/default_settable.h>
namespace pvinst {
struct X : primitiv::mixins::Identifiable<X> { X() {} ~X() {} };
struct Y : primitiv::mixins::DefaultSettable<Y> { Y() {} ~Y() {} };
void use() { X x; X::get_object(0); Y y; Y::set_default(y); Y::get_default(); }
}
"""


class TranslateError(Exception):
    pass


def repo():
    return os.environ.get("PV_REPO", "/repo")


def dump(filt, hooks=True):
    inc = [a for a in ("-I" + repo(), "-I" + os.path.join(ROOT, "_work", "build-plain")) if os.path.isdir(a[2:])]
    with tempfile.NamedTemporaryFile("w", suffix=".cc", dir="/var/tmp", delete=False) as f:
        f.write(TU)
        path = f.name
    try:
        cmd = ["clang++", "-std=c++11", "-fsyntax-only", "-DPRIMITIV_VERIF_HOOKS" if hooks else "-UPRIMITIV_VERIF_HOOKS"] + inc + \
              ["-Xclang", "-ast-dump=json", "-Xclang", "-ast-dump-filter=" + filt, path]
        p = subprocess.run(cmd, stdout=subprocess.PIPE, stderr=subprocess.PIPE, text=True, timeout=300)
    finally:
        os.unlink(path)
    if p.returncode != 0:
        raise TranslateError("clang failed on the mixin instantiation:\n%s" % p.stderr[-2000:])
    docs, dec, i, s = [], json.JSONDecoder(), 0, p.stdout
    while True:
        while i < len(s) and s[i] != "{":
            i += 1
        if i >= len(s):
            break
        obj, i = dec.raw_decode(s, i)
        docs.append(obj)
    return docs


def specialization(docs, name):
    def walk(n):
        if n.get("kind") == "ClassTemplateSpecializationDecl" and n.get("name") == name and n.get("completeDefinition"):
            return n
        for c in n.get("inner", []):
            r = walk(c)
            if r:
                return r
        return None
    for d in docs:
        r = walk(d)
        if r:
            return r
    raise TranslateError("no instantiation of %s in the AST" % name)


TRANSPARENT = {"ExprWithCleanups", "ImplicitCastExpr", "MaterializeTemporaryExpr", "ParenExpr",
               "CXXBindTemporaryExpr", "CXXFunctionalCastExpr", "ConstantExpr", "CXXStaticCastExpr"}


def strip(e):
    while True:
        k, inner = e.get("kind"), e.get("inner", [])
        if k in TRANSPARENT and len(inner) == 1:
            e = inner[0]
        elif k == "CXXConstructExpr" and len(inner) == 1:
            e = inner[0]
        else:
            return e


def var_name(e):
    """name of the static/local variable or data member an expression denotes"""
    e = strip(e)
    if e.get("kind") == "DeclRefExpr":
        return (e.get("referencedDecl") or {}).get("name")
    if e.get("kind") == "MemberExpr" and e.get("inner") and strip(e["inner"][0]).get("kind") == "CXXThisExpr":
        return e.get("name")
    return None


def contains(n, kind):
    if n.get("kind") == kind:
        return True
    return any(contains(c, kind) for c in n.get("inner", []))


def is_this(e):
    return strip(e).get("kind") == "CXXThisExpr"


def take_id_value(e):
    """next_id_++ (postfix)"""
    e = strip(e)
    return e.get("kind") == "UnaryOperator" and e.get("opcode") == "++" and e.get("isPostfix") \
        and var_name(e["inner"][0]) == "next_id_"


def member_call(e):
    """(object variable, method, args) of a call  obj.method(args)"""
    e = strip(e)
    if e.get("kind") != "CXXMemberCallExpr":
        return None
    callee = strip(e["inner"][0])
    if callee.get("kind") != "MemberExpr":
        return None
    return var_name(callee["inner"][0]), callee.get("name"), e["inner"][1:]


class Fn:
    def __init__(self, name):
        self.name = name
        self.iters = set()     # ids of locals holding objects_.find(id)

    def fail(self, what):
        raise TranslateError("%s: %s" % (self.name, what))

    def block(self, s):
        out, guard = [], False
        for c in s.get("inner", []):
            items, g = self.stmt(c)
            out += items
            guard = guard or g
        if guard:
            out.append("MUnlock")
        return out

    def stmt(self, s):
        k = s.get("kind")
        if k == "NullStmt":
            return [], False
        if k == "CompoundStmt":
            return self.block(s), False
        if k == "DeclStmt":
            out, g = [], False
            for d in s.get("inner", []):
                if d.get("kind") != "VarDecl":
                    self.fail("unsupported declaration")
                ty = (d.get("type") or {}).get("qualType", "")
                init = d.get("inner", [None])[-1] if d.get("inner") else None
                if "lock_guard" in ty or "unique_lock" in ty:
                    # only the plain locking form `guard(mutex_)` IS a lock: with a second constructor argument
                    # (std::defer_lock, std::try_to_lock, std::adopt_lock, a time-out) the mutex is not (known to
                    # be) acquired here, and a default-constructed / moved-from guard holds nothing
                    args = [a for a in (strip_ctor_args(init) if init is not None else []) if a.get("kind") != "CXXDefaultArgExpr"]
                    if init is None or len(args) != 1 or var_name(args[0]) != "mutex_":
                        self.fail("lock guard that is not the plain locking form `guard(mutex_)` (%d constructor argument(s): %s)"
                                  % (len(args), ", ".join(var_name(a) or strip(a).get("kind", "?") for a in args)))
                    out.append("MLock")
                    g = True
                elif init is not None and member_call(init) and member_call(init)[:2] == ("objects_", "find"):
                    self.iters.add(d["id"])
                    out.append("MFind")
                else:
                    self.fail("unsupported local %s" % d.get("name"))
            return out, g
        if k == "IfStmt":
            inner = s["inner"]
            if len(inner) != 2:
                self.fail("if with else / initialiser")
            cond, then = strip(inner[0]), inner[1]
            if cond.get("kind") == "CXXOperatorCallExpr" and contains(then, "CXXThrowExpr"):
                ops = cond["inner"][1:]
                names = [strip(o) for o in ops]
                is_it = lambda o: o.get("kind") == "DeclRefExpr" and (o.get("referencedDecl") or {}).get("id") in self.iters
                is_end = lambda o: member_call(o) is not None and member_call(o)[:2] == ("objects_", "end")
                fn = strip(cond["inner"][0])
                if (fn.get("referencedDecl") or {}).get("name") == "operator==" and len(names) == 2 and \
                        ((is_it(names[0]) and is_end(names[1])) or (is_it(names[1]) and is_end(names[0]))):
                    return ["MThrowIfEnd"], False
            if cond.get("kind") == "UnaryOperator" and cond.get("opcode") == "!" and var_name(cond["inner"][0]) == "default_obj_" \
                    and contains(then, "CXXThrowExpr"):
                return ["MThrowIfNoDefault"], False
            if cond.get("kind") == "BinaryOperator" and cond.get("opcode") == "==":
                a, b = cond["inner"]
                if (var_name(a) == "default_obj_" and is_this(b)) or (var_name(b) == "default_obj_" and is_this(a)):
                    body = [c for c in (then.get("inner", []) if then.get("kind") == "CompoundStmt" else [then]) if c.get("kind") != "NullStmt"]
                    if len(body) == 1:
                        e = strip(body[0])
                        if e.get("kind") == "BinaryOperator" and e.get("opcode") == "=" and var_name(e["inner"][0]) == "default_obj_" \
                                and strip(e["inner"][1]).get("kind") in ("CXXNullPtrLiteralExpr", "GNUNullExpr", "IntegerLiteral"):
                            return ["MClearDefaultIfThis"], False
            self.fail("unsupported if statement")
        if k == "ReturnStmt":
            e = strip(s["inner"][0]) if s.get("inner") else None
            if e is not None and e.get("kind") == "UnaryOperator" and e.get("opcode") == "*":
                t = strip(e["inner"][0])
                if var_name(t) == "default_obj_":
                    return ["MRetDefault"], False
                if t.get("kind") == "MemberExpr" and t.get("name") == "second" and contains(t, "DeclRefExpr"):
                    def refs(n):
                        if n.get("kind") == "DeclRefExpr" and (n.get("referencedDecl") or {}).get("id") in self.iters:
                            return True
                        return any(refs(c) for c in n.get("inner", []))
                    if refs(t):
                        return ["MRetFound"], False
            self.fail("unsupported return")
        e = strip(s)
        if e.get("kind") == "BinaryOperator" and e.get("opcode") == "=":
            lhs, rhs = e["inner"]
            if var_name(lhs) == "id_" and take_id_value(rhs):
                return ["MTakeId"], False
            r = strip(rhs)
            if var_name(lhs) == "default_obj_" and r.get("kind") == "UnaryOperator" and r.get("opcode") == "&" \
                    and strip(r["inner"][0]).get("kind") == "DeclRefExpr":
                return ["MSetDefault"], False
        mc = member_call(e)
        if mc and mc[0] == "objects_":
            if mc[1] == "emplace" and len(mc[2]) == 2 and var_name(mc[2][0]) == "id_" and is_this(mc[2][1]):
                return ["MEmplace"], False
            if mc[1] == "erase" and len(mc[2]) == 1 and var_name(mc[2][0]) == "id_":
                return ["MErase"], False
        self.fail("unsupported statement of kind %s" % e.get("kind"))

    def ctor_inits(self, decl):
        out = []
        for c in decl.get("inner", []):
            if c.get("kind") != "CXXCtorInitializer":
                continue
            if "baseInit" in c:
                continue
            nm = (c.get("anyInit") or {}).get("name")
            if nm == "id_" and c.get("inner") and take_id_value(c["inner"][0]):
                out.append("MTakeId")
            else:
                self.fail("unsupported member initializer for %s" % nm)
        return out


def strip_ctor_args(e):
    e2 = e
    while e2.get("kind") in TRANSPARENT and len(e2.get("inner", [])) == 1:
        e2 = e2["inner"][0]
    return e2.get("inner", []) if e2.get("kind") == "CXXConstructExpr" else [e2]


def body_of(decl):
    b = [x for x in decl.get("inner", []) if x.get("kind") == "CompoundStmt"]
    if not b:
        raise TranslateError("%s has no body" % decl.get("name"))
    return b[0]


def translate():
    """the bodies as compiled by every build of /verif (-DPRIMITIV_VERIF_HOOKS); the plain variant
    (what users build) must give the same instruction lists"""
    on = translate_variant(True)
    off = translate_variant(False)
    if on != off:
        raise TranslateError("the mixin bodies differ between the -DPRIMITIV_VERIF_HOOKS build and the plain build: %s"
                             % sorted(k for k in on if on[k] != off.get(k)))
    return on


def translate_variant(hooks):
    ident = specialization(dump("Identifiable", hooks), "Identifiable")
    dflt = specialization(dump("DefaultSettable", hooks), "DefaultSettable")
    res = {}
    for m in ident.get("inner", []):
        if m.get("isImplicit"):
            continue
        if m.get("kind") == "CXXConstructorDecl" and not [p for p in m.get("inner", []) if p.get("kind") == "ParmVarDecl"]:
            f = Fn("Identifiable::Identifiable")
            res["id_ctor"] = f.ctor_inits(m) + f.block(body_of(m))
        elif m.get("kind") == "CXXDestructorDecl":
            res["id_dtor"] = Fn("Identifiable::~Identifiable").block(body_of(m))
        elif m.get("kind") == "CXXMethodDecl" and m.get("name") == "get_object":
            res["id_get"] = Fn("Identifiable::get_object").block(body_of(m))
    for m in dflt.get("inner", []):
        if m.get("isImplicit"):
            continue
        if m.get("kind") == "CXXDestructorDecl":
            res["ds_dtor"] = Fn("DefaultSettable::~DefaultSettable").block(body_of(m))
        elif m.get("kind") == "CXXMethodDecl" and m.get("name") == "get_default":
            res["ds_get"] = Fn("DefaultSettable::get_default").block(body_of(m))
        elif m.get("kind") == "CXXMethodDecl" and m.get("name") == "set_default":
            res["ds_set"] = Fn("DefaultSettable::set_default").block(body_of(m))
    for k in ("id_ctor", "id_dtor", "id_get", "ds_dtor", "ds_get", "ds_set"):
        if k not in res:
            raise TranslateError("%s not found" % k)
    return res


def generate():
    r = translate()
    fields = ";\n     ".join("%s := [%s]" % (k, "; ".join(r[k])) for k in ("id_ctor", "id_dtor", "id_get", "ds_dtor", "ds_get", "ds_set"))
    return ("(* GENERATED by translate/gen_mixins.py from primitiv/core/mixins/{identifiable,default_settable}.h\n"
            "   -- do not edit.  Regenerated on every run of ./check C19. *)\n"
            "From Coq Require Import List.\nFrom PV Require Import Spin.MixLang.\nImport ListNotations.\n\n"
            "Definition gen_mixins : mixins :=\n  {| %s |}.\n" % fields)


def main():
    text = generate()
    os.makedirs(os.path.dirname(OUT), exist_ok=True)
    old = open(OUT).read() if os.path.exists(OUT) else None
    if old != text:
        tmp = "%s.tmp.%d" % (OUT, os.getpid())
        with open(tmp, "w") as f:
            f.write(text)
        os.replace(tmp, OUT)
    return OUT


if __name__ == "__main__":
    try:
        print(main())
    except TranslateError as e:
        print("gen_mixins: " + str(e), file=sys.stderr)
        sys.exit(1)
