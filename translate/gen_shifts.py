#!/usr/bin/env python3
"""Translator (T) for C18: regenerates coq/Gen/ShiftsGen.v from
<repo>/primitiv/core/numeric_utils.h on every run.

The body of `numeric_utils::calculate_shifts` is read from clang's JSON AST and written as a
Gallina expression over N in which every uint64 wrap is explicit (`mod 18446744073709551616`).
Only the AST is used, so comments / whitespace / parentheses / hex-vs-decimal literals do not
matter; the parameter is renamed `x` and the locals `v0, v1, ...` in declaration order;
`a op= e` is normalised to `a = a op e`.  Any construct outside the small fragment below
raises Unsupported (the check then reports the tie as broken and sweeps the real code).

Fragment: one uint64 parameter; statements `if (c) return e;`, `T v = e;`, `v = e;`,
`v op= e;`, `return e;`; expressions over uint64 variables, non-negative integer literals,
| & ^ >> << + - * (uint64), == != < <= > >= (bool), bool -> integer conversions, parentheses.
"""
import json
import os
import subprocess
import sys

W = 18446744073709551616  # 2^64
OUT = "/verif/coq/Gen/ShiftsGen.v"


class Unsupported(Exception):
    pass


def repo():
    return os.environ.get("PV_REPO", "/repo")


def load_ast(path):
    cmd = ["clang++", "-std=c++11", "-fsyntax-only", "-x", "c++", "-I", repo(),
           "-Xclang", "-ast-dump=json", "-Xclang", "-ast-dump-filter=calculate_shifts", path]
    p = subprocess.run(cmd, stdout=subprocess.PIPE, stderr=subprocess.PIPE, text=True, timeout=120)
    if p.returncode != 0:
        raise Unsupported("clang failed: " + p.stderr[-500:])
    dec = json.JSONDecoder()
    s, i, objs = p.stdout, 0, []
    while True:
        while i < len(s) and s[i].isspace():
            i += 1
        if i >= len(s):
            break
        o, i = dec.raw_decode(s, i)
        objs.append(o)
    fns = [o for o in objs if o.get("kind") == "FunctionDecl" and o.get("name") == "calculate_shifts"
           and any(c.get("kind") == "CompoundStmt" for c in o.get("inner", []))]
    if len(fns) != 1:
        raise Unsupported("expected exactly one definition of calculate_shifts, found %d" % len(fns))
    return fns[0]


U64_TYPES = ("unsigned long", "unsigned long long")


def qual(node):
    t = node.get("type", {})
    return (t.get("desugaredQualType") or t.get("qualType") or "").replace("const ", "").strip()


def is_u64(node):
    return qual(node) in U64_TYPES


class Tr:
    """Expressions are translated to (text, kind); kind in {'u64','bool','lit'}.
    'lit' = a non-negative integer literal of any integer type (value-preserving to uint64)."""

    def __init__(self):
        self.names = {}   # clang decl id -> normalised name
        self.nloc = 0

    def bind_param(self, d):
        if not is_u64(d):
            raise Unsupported("parameter type " + qual(d))
        self.names[d["id"]] = "x"

    def bind_local(self, d):
        if not is_u64(d):
            raise Unsupported("local type " + qual(d))
        n = "v%d" % self.nloc
        self.nloc += 1
        self.names[d["id"]] = n
        return n

    def as_u64(self, tk):
        t, k = tk
        if k in ("u64", "lit"):
            return t
        if k == "bool":
            return "(if %s then 1 else 0)" % t
        raise Unsupported("conversion from " + k)

    def expr(self, e):
        k = e["kind"]
        if k in ("ParenExpr", "ExprWithCleanups", "ConstantExpr"):
            return self.expr(e["inner"][0])
        if k == "ImplicitCastExpr" or k == "CStyleCastExpr" or k == "CXXStaticCastExpr" or k == "CXXFunctionalCastExpr":
            ck = e.get("castKind")
            sub = self.expr(e["inner"][0])
            if ck in ("LValueToRValue", "NoOp"):
                return sub
            if ck == "IntegralCast":
                if is_u64(e):
                    return (self.as_u64(sub), "u64") if sub[1] != "lit" else sub
                if sub[1] in ("lit", "bool"):   # bool -> int promotion, literal of another width
                    return sub
                raise Unsupported("integral cast to " + qual(e))
            if ck == "IntegralToBoolean":
                return ("negb (%s =? 0)" % self.as_u64(sub), "bool")
            raise Unsupported("cast kind %s" % ck)
        if k == "IntegerLiteral":
            v = int(e["value"])
            if v < 0 or v >= W:
                raise Unsupported("literal out of range")
            return (str(v), "lit")
        if k == "CXXBoolLiteralExpr":
            return ("true" if e.get("value") else "false", "bool")
        if k == "DeclRefExpr":
            rid = e.get("referencedDecl", {}).get("id")
            if rid not in self.names:
                raise Unsupported("reference to unknown declaration " + str(e.get("referencedDecl", {}).get("name")))
            return (self.names[rid], "u64")
        if k == "BinaryOperator":
            op = e["opcode"]
            a, b = self.expr(e["inner"][0]), self.expr(e["inner"][1])
            return self.binop(op, a, b, e)
        if k == "UnaryOperator" and e.get("opcode") == "!":
            a = self.expr(e["inner"][0])
            if a[1] != "bool":
                raise Unsupported("! on non-bool")
            return ("negb %s" % a[0], "bool")
        raise Unsupported("expression kind " + k)

    def binop(self, op, a, b, e):
        cmpops = {"==": "=?", "<": "<?", "<=": "<=?"}
        if op in cmpops or op in ("!=", ">", ">="):
            x, y = self.as_u64(a), self.as_u64(b)
            if op == "!=":
                return ("negb (%s =? %s)" % (x, y), "bool")
            if op == ">":
                return ("(%s <? %s)" % (y, x), "bool")
            if op == ">=":
                return ("(%s <=? %s)" % (y, x), "bool")
            return ("(%s %s %s)" % (x, cmpops[op], y), "bool")
        # arithmetic / bitwise: the result must be a 64-bit unsigned value
        if not is_u64(e):
            raise Unsupported("operator %s at type %s" % (op, qual(e)))
        if op in (">>", "<<"):
            if a[1] not in ("u64",) and not (a[1] == "lit" and is_u64(e)):
                raise Unsupported("shift of a non-uint64 value")
            x, y = self.as_u64(a), self.as_u64(b)
            if op == ">>":
                return ("(N.shiftr %s %s)" % (x, y), "u64")
            return ("((N.shiftl %s %s) mod %d)" % (x, y, W), "u64")
        x, y = self.as_u64(a), self.as_u64(b)
        if op == "|":
            return ("(N.lor %s %s)" % (x, y), "u64")
        if op == "&":
            return ("(N.land %s %s)" % (x, y), "u64")
        if op == "^":
            return ("(N.lxor %s %s)" % (x, y), "u64")
        if op == "+":
            return ("((%s + %s) mod %d)" % (x, y, W), "u64")
        if op == "-":
            return ("((%s + %d - %s) mod %d)" % (x, W, y, W), "u64")
        if op == "*":
            return ("((%s * %s) mod %d)" % (x, y, W), "u64")
        raise Unsupported("operator " + op)

    # statements: returns Gallina text of the rest of the block
    def block(self, stmts):
        if not stmts:
            raise Unsupported("control reaches the end without return")
        s, rest = stmts[0], stmts[1:]
        k = s["kind"]
        if k == "CompoundStmt":
            return self.block(list(s.get("inner", [])) + rest)
        if k == "NullStmt":
            return self.block(rest)
        if k == "ReturnStmt":
            return self.as_u64(self.expr(s["inner"][0]))
        if k == "IfStmt":
            inner = s["inner"]
            if len(inner) != 2 or s.get("hasElse"):
                raise Unsupported("if with else / init")
            c = self.expr(inner[0])
            if c[1] != "bool":
                c = ("negb (%s =? 0)" % self.as_u64(c), "bool")
            th = inner[1]
            if th["kind"] == "CompoundStmt":
                if len(th.get("inner", [])) != 1:
                    raise Unsupported("if body")
                th = th["inner"][0]
            if th["kind"] != "ReturnStmt":
                raise Unsupported("if body must be a return")
            r = self.as_u64(self.expr(th["inner"][0]))
            return "if %s then %s else\n  %s" % (c[0], r, self.block(rest))
        if k == "DeclStmt":
            out = ""
            binds = []
            for d in s["inner"]:
                if d["kind"] != "VarDecl" or "inner" not in d:
                    raise Unsupported("declaration without initialiser")
                v = self.as_u64(self.expr(d["inner"][0]))
                n = self.bind_local(d)
                binds.append((n, v))
            body = self.block(rest)
            for n, v in reversed(binds):
                body = "let %s := %s in\n  %s" % (n, v, body)
            return out + body
        if k == "BinaryOperator" and s["opcode"] == "=":
            lhs = s["inner"][0]
            if lhs["kind"] != "DeclRefExpr":
                raise Unsupported("assignment target")
            n = self.expr(lhs)[0]
            if n == "x":
                raise Unsupported("assignment to the parameter")
            v = self.as_u64(self.expr(s["inner"][1]))
            return "let %s := %s in\n  %s" % (n, v, self.block(rest))
        if k == "CompoundAssignOperator":
            lhs = s["inner"][0]
            if lhs["kind"] != "DeclRefExpr":
                raise Unsupported("assignment target")
            l = self.expr(lhs)
            if l[0] == "x":
                raise Unsupported("assignment to the parameter")
            op = s["opcode"][:-1]
            fake = {"type": {"qualType": "unsigned long"}}
            if not is_u64(s):
                raise Unsupported("compound assignment at type " + qual(s))
            v = self.binop(op, l, self.expr(s["inner"][1]), fake)[0]
            return "let %s := %s in\n  %s" % (l[0], v, self.block(rest))
        raise Unsupported("statement kind " + k)


def translate(path=None):
    path = path or os.path.join(repo(), "primitiv/core/numeric_utils.h")
    fn = load_ast(path)
    if qual({"type": {"qualType": fn["type"]["qualType"].split("(")[0].strip()}}) not in U64_TYPES + ("std::uint64_t", "uint64_t"):
        raise Unsupported("return type " + fn["type"]["qualType"])
    tr = Tr()
    params = [c for c in fn["inner"] if c["kind"] == "ParmVarDecl"]
    if len(params) != 1:
        raise Unsupported("expected one parameter")
    tr.bind_param(params[0])
    body = [c for c in fn["inner"] if c["kind"] == "CompoundStmt"][0]
    text = tr.block(list(body.get("inner", [])))
    return text


HEADER = """(* GENERATED by translate/gen_shifts.py from primitiv/core/numeric_utils.h -- do not edit.
   numeric_utils::calculate_shifts as a Gallina expression over N; every uint64 wrap explicit. *)
From Coq Require Import NArith.
Local Open Scope N_scope.

"""


def render(text):
    return HEADER + "Definition calculate_shifts (x : N) : N :=\n  " + text + ".\n"


def write_if_changed(path, content):
    try:
        if open(path).read() == content:
            return False
    except OSError:
        pass
    os.makedirs(os.path.dirname(path), exist_ok=True)
    with open(path, "w") as f:
        f.write(content)
    return True


def main():
    """Regenerate coq/Gen/ShiftsGen.v.  When the source is outside the fragment the file is
    still written (with a definition that cannot match the reviewed copy), so that the
    obligation gen_matches fails rather than a stale file being checked."""
    try:
        content = render(translate())
        err = None
    except Unsupported as e:
        err = str(e)
        content = HEADER + "(* UNTRANSLATABLE: %s *)\nDefinition calculate_shifts (x : N) : N := 0.\n" % err.replace("*)", "* )")
    write_if_changed(OUT, content)
    if err:
        raise Unsupported(err)
    return OUT


if __name__ == "__main__":
    try:
        print(main())
    except Unsupported as e:
        print("untranslatable:", e)
        sys.exit(1)
