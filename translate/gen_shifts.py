#!/usr/bin/env python3
"""Translator (T) for C18: regenerates coq/Gen/ShiftsGen.v from
<repo>/primitiv/core/numeric_utils.h on every run.

The body of `numeric_utils::calculate_shifts` is read from clang's JSON AST and written
(a) as a value `prog` of the syntax of coq/Pool/ShiftsLang.v (whose evaluator makes every
    uint64 wrap explicit) -- this is what the obligation `gen_matches` in coq/Pool/Shifts.v
    compares with the reviewed copy, and
(b) as the same function written directly as a Gallina expression over N with explicit
    `mod 18446744073709551616` (Definition calculate_shifts; used by the failing-input sweep).
Only the AST is used, so comments / whitespace / parentheses / hex-vs-decimal literals do not
matter; the parameter becomes variable 0 and the locals 1, 2, ... in declaration order;
`a op= e` is normalised to `a = a op e`, `a > b` to `b < a`, `!c` to `c == 0`, a literal
first operand of a commutative operator is moved to the second place.  Any construct
outside the small fragment below raises Unsupported (the check then reports the tie as broken
and sweeps the real code).

Fragment: one uint64 parameter; statements `if (c) return e;`, `T v = e;`, `v = e;`,
`v op= e;`, `return e;`; expressions over uint64 variables, non-negative integer literals,
| & ^ >> << + - * (at uint64), == != < <= > >= , !, bool -> integer conversions, parentheses.
"""
import json
import os
import subprocess
import sys

W = 18446744073709551616  # 2^64
OUT = "/verif/coq/Gen/ShiftsGen.v"


class Unsupported(Exception):
    pass


def repo():
    return os.environ.get("PV_REPO", "/repo")


def load_ast(path, hooks=True):
    # every build of /verif compiles the library with -DPRIMITIV_VERIF_HOOKS; users build without it:
    # translate() reads both variants and requires them to be the same program
    cmd = ["clang++", "-std=c++11", "-fsyntax-only", "-x", "c++", "-I", repo(),
           "-DPRIMITIV_VERIF_HOOKS" if hooks else "-UPRIMITIV_VERIF_HOOKS",
           "-Xclang", "-ast-dump=json", "-Xclang", "-ast-dump-filter=calculate_shifts", path]
    p = subprocess.run(cmd, stdout=subprocess.PIPE, stderr=subprocess.PIPE, text=True, timeout=120)
    if p.returncode != 0:
        raise Unsupported("clang failed: " + p.stderr[-500:])
    dec = json.JSONDecoder()
    s, i, objs = p.stdout, 0, []
    while True:
        while i < len(s) and s[i].isspace():
            i += 1
        if i >= len(s):
            break
        o, i = dec.raw_decode(s, i)
        objs.append(o)
    fns = [o for o in objs if o.get("kind") == "FunctionDecl" and o.get("name") == "calculate_shifts"
           and any(c.get("kind") == "CompoundStmt" for c in o.get("inner", []))]
    if len(fns) != 1:
        raise Unsupported("expected exactly one definition of calculate_shifts, found %d" % len(fns))
    return fns[0]


U64_TYPES = ("unsigned long", "unsigned long long")
CMP = {"==": "OEq", "!=": "ONe", "<": "OLt", "<=": "OLe"}
ARITH = {"|": "OLor", "&": "OLand", "^": "OLxor", ">>": "OShr", "<<": "OShl", "+": "OAdd", "-": "OSub", "*": "OMul"}


def qual(node):
    t = node.get("type", {})
    return (t.get("desugaredQualType") or t.get("qualType") or "").replace("const ", "").strip()


def is_u64(node):
    return qual(node) in U64_TYPES


# (bits, signed) of the integer types of the x86-64 Linux ABI the library is built for
INT_TYPES = {"bool": (1, False), "char": (8, True), "signed char": (8, True), "unsigned char": (8, False),
             "short": (16, True), "unsigned short": (16, False), "int": (32, True), "unsigned int": (32, False),
             "long": (64, True), "unsigned long": (64, False), "long long": (64, True), "unsigned long long": (64, False)}


def cast_literal(v, node):
    """value of the non-negative literal v after an integral conversion to the type of `node`"""
    ty = qual(node)
    if ty not in INT_TYPES:
        raise Unsupported("integral cast of a literal to " + ty)
    bits, signed = INT_TYPES[ty]
    if ty == "bool":
        return 1 if v else 0
    if signed:
        if v >= 2 ** (bits - 1):
            raise Unsupported("literal %d does not fit the signed type %s it is converted to" % (v, ty))
        return v
    return v % (2 ** bits)      # conversion to an unsigned type: modulo 2^bits (narrowing changes the value)


class Tr:
    """Expressions become (tree, kind): tree = ('var', n) | ('lit', v) | ('bin', op, a, b);
    kind in {'u64', 'bool', 'lit'} ('lit' = non-negative integer literal of any integer type,
    'bool' = a comparison, value 1/0; both convert to uint64 without changing the value)."""

    def __init__(self):
        self.names = {}   # clang decl id -> variable number
        self.nvars = 1

    def bind_param(self, d):
        if not is_u64(d):
            raise Unsupported("parameter type " + qual(d))
        self.names[d["id"]] = 0

    def bind_local(self, d):
        if not is_u64(d):
            raise Unsupported("local type " + qual(d))
        n = self.nvars
        self.nvars += 1
        self.names[d["id"]] = n
        return n

    def expr(self, e):
        k = e["kind"]
        if k in ("ParenExpr", "ExprWithCleanups", "ConstantExpr"):
            return self.expr(e["inner"][0])
        if k in ("ImplicitCastExpr", "CStyleCastExpr", "CXXStaticCastExpr", "CXXFunctionalCastExpr"):
            ck = e.get("castKind")
            sub = self.expr(e["inner"][0])
            if ck in ("LValueToRValue", "NoOp"):
                return sub
            if ck == "IntegralCast":
                if sub[1] == "lit":             # literal converted to another width: by the width of the target type
                    return (("lit", cast_literal(sub[0][1], e)), "lit")
                if is_u64(e):
                    return (sub[0], "u64")
                if sub[1] == "bool" and qual(e) in INT_TYPES:   # bool -> int promotion: 0 / 1 fit every integer type
                    return sub
                raise Unsupported("integral cast to " + qual(e))
            if ck == "IntegralToBoolean":
                return (("bin", "ONe", sub[0], ("lit", 0)), "bool")
            raise Unsupported("cast kind %s" % ck)
        if k == "IntegerLiteral":
            v = int(e["value"])
            if v < 0 or v >= W:
                raise Unsupported("literal out of range")
            return (("lit", v), "lit")
        if k == "CXXBoolLiteralExpr":
            return (("lit", 1 if e.get("value") else 0), "bool")
        if k == "DeclRefExpr":
            rid = e.get("referencedDecl", {}).get("id")
            if rid not in self.names:
                raise Unsupported("reference to unknown declaration " + str(e.get("referencedDecl", {}).get("name")))
            return (("var", self.names[rid]), "u64")
        if k == "BinaryOperator":
            a, b = self.expr(e["inner"][0]), self.expr(e["inner"][1])
            return self.binop(e["opcode"], a, b, is_u64(e), qual(e))
        if k == "UnaryOperator" and e.get("opcode") == "!":
            a = self.expr(e["inner"][0])
            return (("bin", "OEq", a[0], ("lit", 0)), "bool")
        raise Unsupported("expression kind " + k)

    def binop(self, op, a, b, res_u64, res_ty):
        if op in ("==", "!=", "|", "&", "^", "+", "*") and a[1] == "lit" and b[1] != "lit":
            a, b = b, a     # commutative: literal operand second (`0 == x` is `x == 0`)
        if op in CMP:
            return (("bin", CMP[op], a[0], b[0]), "bool")
        if op == ">":
            return (("bin", "OLt", b[0], a[0]), "bool")
        if op == ">=":
            return (("bin", "OLe", b[0], a[0]), "bool")
        if op not in ARITH:
            raise Unsupported("operator " + op)
        # arithmetic / bitwise: must be evaluated at a 64-bit unsigned type
        if not res_u64:
            raise Unsupported("operator %s at type %s" % (op, res_ty))
        if op in (">>", "<<") and a[1] == "bool":
            raise Unsupported("shift of a bool")
        return (("bin", ARITH[op], a[0], b[0]), "u64")

    # statements -> ('ifret', c, r, k) | ('let', v, e, k) | ('ret', e)
    def block(self, stmts):
        if not stmts:
            raise Unsupported("control reaches the end without return")
        s, rest = stmts[0], stmts[1:]
        k = s["kind"]
        if k == "CompoundStmt":
            return self.block(list(s.get("inner", [])) + rest)
        if k == "NullStmt":
            return self.block(rest)
        if k == "ReturnStmt":
            return ("ret", self.expr(s["inner"][0])[0])
        if k == "IfStmt":
            inner = s["inner"]
            if len(inner) != 2 or s.get("hasElse"):
                raise Unsupported("if with else / init")
            c = self.expr(inner[0])
            th = inner[1]
            if th["kind"] == "CompoundStmt":
                if len(th.get("inner", [])) != 1:
                    raise Unsupported("if body")
                th = th["inner"][0]
            if th["kind"] != "ReturnStmt":
                raise Unsupported("if body must be a return")
            r = self.expr(th["inner"][0])[0]
            return ("ifret", c[0], r, self.block(rest))
        if k == "DeclStmt":
            binds = []
            for d in s["inner"]:
                if d["kind"] != "VarDecl" or "inner" not in d:
                    raise Unsupported("declaration without initialiser")
                v = self.expr(d["inner"][0])[0]
                binds.append((self.bind_local(d), v))
            body = self.block(rest)
            for n, v in reversed(binds):
                body = ("let", n, v, body)
            return body
        if k == "BinaryOperator" and s["opcode"] == "=":
            n = self.target(s["inner"][0])
            return ("let", n, self.expr(s["inner"][1])[0], self.block(rest))
        if k == "CompoundAssignOperator":
            n = self.target(s["inner"][0])
            if not is_u64(s):
                raise Unsupported("compound assignment at type " + qual(s))
            v = self.binop(s["opcode"][:-1], (("var", n), "u64"), self.expr(s["inner"][1]), True, "")[0]
            return ("let", n, v, self.block(rest))
        raise Unsupported("statement kind " + k)

    def target(self, lhs):
        if lhs["kind"] != "DeclRefExpr":
            raise Unsupported("assignment target")
        n = self.expr(lhs)[0][1]
        if n == 0:
            raise Unsupported("assignment to the parameter")
        return n


def translate(path=None):
    """the program of the hooks-on build (what every harness runs); the hooks-off variant (what users
    build) must translate to the same program"""
    on = translate_variant(path, True)
    off = translate_variant(path, False)
    if on != off:
        raise Unsupported("calculate_shifts differs between the -DPRIMITIV_VERIF_HOOKS build (checked here) and the plain build")
    return on


def translate_variant(path, hooks):
    path = path or os.path.join(repo(), "primitiv/core/numeric_utils.h")
    fn = load_ast(path, hooks)
    tr = Tr()
    params = [c for c in fn["inner"] if c["kind"] == "ParmVarDecl"]
    if len(params) != 1:
        raise Unsupported("expected one parameter")
    tr.bind_param(params[0])
    body = [c for c in fn["inner"] if c["kind"] == "CompoundStmt"][0]
    return tr.block(list(body.get("inner", [])))


# ---- renderers

def nat(n):
    return "O" if n == 0 else "%d%%nat" % n


def deep_e(e):
    if e[0] == "var":
        return "(Var %s)" % nat(e[1])
    if e[0] == "lit":
        return "(Lit %d)" % e[1]
    return "(Bin %s %s %s)" % (e[1], deep_e(e[2]), deep_e(e[3]))


def deep_s(s):
    if s[0] == "ret":
        return "Ret %s" % deep_e(s[1])
    if s[0] == "ifret":
        return "IfRet %s %s (\n  %s)" % (deep_e(s[1]), deep_e(s[2]), deep_s(s[3]))
    return "Let %s %s (\n  %s)" % (nat(s[1]), deep_e(s[2]), deep_s(s[3]))


def vname(n):
    return "x" if n == 0 else "v%d" % (n - 1)


def sh_e(e):
    if e[0] == "var":
        return vname(e[1])
    if e[0] == "lit":
        return str(e[1])
    op, a, b = e[1], sh_e(e[2]), sh_e(e[3])
    return {
        "OLor": "(N.lor %s %s)", "OLand": "(N.land %s %s)", "OLxor": "(N.lxor %s %s)",
        "OShr": "(N.shiftr %s %s)", "OShl": "((N.shiftl %s %s) mod {W})",
        "OAdd": "((%s + %s) mod {W})", "OSub": "((%s + {W} - %s) mod {W})", "OMul": "((%s * %s) mod {W})",
        "OEq": "(if %s =? %s then 1 else 0)", "ONe": "(if %s =? %s then 0 else 1)",
        "OLt": "(if %s <? %s then 1 else 0)", "OLe": "(if %s <=? %s then 1 else 0)",
    }[op].replace("{W}", str(W)) % (a, b)


def sh_s(s):
    if s[0] == "ret":
        return sh_e(s[1])
    if s[0] == "ifret":
        return "if %s =? 0 then\n  %s\n  else %s" % (sh_e(s[1]), sh_s(s[3]), sh_e(s[2]))
    return "let %s := %s in\n  %s" % (vname(s[1]), sh_e(s[2]), sh_s(s[3]))


HEADER = """(* GENERATED by translate/gen_shifts.py from primitiv/core/numeric_utils.h -- do not edit.
   numeric_utils::calculate_shifts (a) as syntax of Pool/ShiftsLang.v, (b) as a Gallina
   expression over N with every uint64 wrap explicit. *)
From Coq Require Import NArith.
From PV Require Import Pool.ShiftsLang.
Local Open Scope N_scope.

"""


def render(prog):
    return (HEADER + "Definition prog : stmt :=\n  " + deep_s(prog) + ".\n\n"
            + "Definition calculate_shifts (x : N) : N :=\n  " + sh_s(prog) + ".\n")


def write_if_changed(path, content):
    try:
        if open(path).read() == content:
            return False
    except OSError:
        pass
    os.makedirs(os.path.dirname(path), exist_ok=True)
    tmp = "%s.tmp.%d" % (path, os.getpid())
    with open(tmp, "w") as f:
        f.write(content)
    os.replace(tmp, path)
    return True


def main():
    """Regenerate coq/Gen/ShiftsGen.v.  When the source is outside the fragment the file is
    still written (with a program that cannot match the reviewed copy), so that the
    obligation gen_matches fails rather than a stale file being checked."""
    try:
        content = render(translate())
        err = None
    except Unsupported as e:
        err = str(e)
        content = (HEADER + "(* UNTRANSLATABLE: %s *)\n" % err.replace("*)", "* )")
                   + "Definition prog : stmt := Ret (Lit 0).\nDefinition calculate_shifts (x : N) : N := 0.\n")
    write_if_changed(OUT, content)
    if err:
        raise Unsupported(err)
    return OUT


if __name__ == "__main__":
    try:
        print(main())
    except Unsupported as e:
        print("untranslatable:", e)
        sys.exit(1)
