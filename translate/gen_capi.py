#!/usr/bin/env python3
"""Translator (T) of the C20 engine: /repo/primitiv/c/**/*.cc  ->  coq/Gen/CApiTable.v
(+ the same facts as JSON in _work/gen/capi_table.json for the harness generator).

Every exported wrapper `PRIMITIV_C_STATUS primitivXxx(...) try { ... } PRIMITIV_C_HANDLE_EXCEPTIONS`
is read from the clang JSON AST (macros expanded), one record per function:
  * parameters with a type kind,
  * the ordered list of *events* of the body: top-level null checks (the IfStmt/throw that
    PRIMITIV_C_CHECK_NOT_NULL expands to), dereferences (`*to_cpp_ptr(p)`, `to_cpp_ptr(p)->`,
    `delete`, `*p = ..`, `p[i]`, `p, p + n` ranges, C strings and raw pointers handed to C++),
    pass-through conversions (`to_cpp_ptr(dev)` handed on as a pointer: NULL = default object),
    size-query buffers (2nd argument of the three internal helpers) and their size argument,
    per-element checks / uses of pointer arrays,
  * whether the body is a function-try-block whose handler catches `const std::exception &`
    and returns ErrorHandler::handle(e), and the integer values returned by the try block.
The three helpers and ErrorHandler::handle/reset of c/internal/internal.h are read as small
expression records (comparison operator, size written on the NULL-buffer path, returned status).
Anything the patterns below do not recognise is reported as an event `Unknown` (which no
theorem accepts) or makes the translator fail loudly; it never silently drops a use.
"""
import concurrent.futures
import glob
import json
import os
import re
import subprocess
import sys

ROOT = "/verif"
REPO = os.environ.get("PV_REPO", "/repo")
OUT_V = os.path.join(ROOT, "coq", "Gen", "CApiTable.v")
OUT_JSON = os.path.join(ROOT, "_work", "gen", "capi_table" + ("" if REPO == "/repo" else "-scratch") + ".json")
HELPERS = ("copy_vector_to_array", "copy_string_to_array", "move_vector_to_array_of_c_ptrs")
SKIP_DIRS = ("devices/cuda", "devices/opencl")   # cannot be compiled here (DESIGN 4.6: outside every claim)


def build_dir():
    b = os.environ.get("PV_CAPI_BUILD")
    if b and os.path.exists(os.path.join(b, "primitiv", "config.h")):
        return b
    out = subprocess.run([os.path.join(ROOT, "tools", "build_impl.sh"), "asan"], stdout=subprocess.PIPE,
                         stderr=subprocess.STDOUT, text=True, env=dict(os.environ))
    if out.returncode != 0:
        raise RuntimeError("build_impl.sh asan failed (needed for primitiv/config.h):\n" + out.stdout[-2000:])
    return out.stdout.strip().splitlines()[-1]


def source_files(bdir):
    cdir = os.path.join(REPO, "primitiv", "c")
    cfg = open(os.path.join(bdir, "primitiv", "config.h")).read()
    files = []
    for f in sorted(glob.glob(os.path.join(cdir, "**", "*.cc"), recursive=True)):
        rel = os.path.relpath(f, cdir)
        if any(rel.startswith(s) for s in SKIP_DIRS):
            continue
        if rel.startswith("devices/eigen") and not re.search(r"^#define PRIMITIV_USE_EIGEN", cfg, re.M):
            continue
        files.append(f)
    return files


def ast_chunks(path, bdir):
    """clang JSON AST of one file, filtered to declarations whose name contains `primitiv`;
    returns (top-level FunctionDecl objects, namespace chunks as raw text)."""
    cmd = ["clang++", "-std=c++11", "-fsyntax-only", "-I" + REPO, "-I" + bdir, "-I/usr/include/eigen3",
           "-Xclang", "-ast-dump=json", "-Xclang", "-ast-dump-filter=primitiv", path]
    p = subprocess.run(cmd, stdout=subprocess.PIPE, stderr=subprocess.PIPE, text=True)
    if p.returncode != 0:
        raise RuntimeError("clang failed on %s:\n%s" % (path, p.stderr[-2000:]))
    parts = re.split(r"(?m)^\}\n(?=\{)", p.stdout)
    funcs, others = [], []
    for i, part in enumerate(parts):
        txt = part if i == len(parts) - 1 else part + "}"
        head = txt[:400]
        if '"kind": "FunctionDecl"' in head:
            funcs.append(json.loads(txt))
        elif '"kind": "NamespaceDecl"' in head and ("ErrorHandler" in txt and "copy_vector_to_array" in txt):
            others.append(txt)
    return funcs, others


# --------------------------------------------------------------------------- types

OBJ_RE = re.compile(r"^(const )?primitiv([A-Z][A-Za-z]*)_t \*$")
OBJPP_RE = re.compile(r"^(const )?primitiv([A-Z][A-Za-z]*)_t \*(const )?\*$")
DATA_RE = re.compile(r"^(const )?(uint32_t|int32_t|float|size_t|char|PRIMITIV_C_BOOL) \*$")


def ptype(q):
    """type kind of a parameter from its spelled type"""
    m = OBJ_RE.match(q)
    if m:
        return ("PObjPtr", bool(m.group(1)), m.group(2))
    m = OBJPP_RE.match(q)
    if m:
        return ("PObjPtrPtr", bool(m.group(1)), m.group(2))
    if q == "const char *":
        return ("PCStr",)
    if q in ("const char **", "const char *const *"):
        return ("PCStrPtr",)
    m = DATA_RE.match(q)
    if m:
        return ("PDataPtr", bool(m.group(1)), m.group(2))
    if "*" in q or "&" in q or "[" in q:
        raise RuntimeError("unrecognised pointer parameter type `%s`" % q)
    return ("PScalar", q)


# --------------------------------------------------------------------------- AST helpers

TRANSPARENT = ("ImplicitCastExpr", "ParenExpr", "ExprWithCleanups", "MaterializeTemporaryExpr",
               "CXXBindTemporaryExpr", "ConstantExpr")


def kids(o):
    return [c for c in o.get("inner", []) if c]


def strip(o):
    while o.get("kind") in TRANSPARENT and kids(o):
        o = kids(o)[0]
    return o


def contains(o, kind):
    if o.get("kind") == kind:
        return True
    return any(contains(c, kind) for c in kids(o))


def callee_name(call):
    ks = kids(call)
    if not ks:
        return None
    c = strip(ks[0])
    if c.get("kind") == "DeclRefExpr":
        return c.get("referencedDecl", {}).get("name")
    if c.get("kind") == "MemberExpr":
        return c.get("name")
    return None


def refdecl(o):
    o = strip(o)
    if o.get("kind") == "DeclRefExpr":
        return o.get("referencedDecl", {})
    return None


class Fn:
    """analysis of one wrapper definition"""

    def __init__(self, decl, path):
        self.name = decl["name"]
        self.path = os.path.relpath(path, os.path.join(REPO, "primitiv", "c"))
        self.params = []       # dicts: name, ctype, ptype
        self.pid = {}          # clang decl id -> index
        self.alias = {}        # local VarDecl id -> (param index, mode)  mode: 'ptr' | 'array'
        self.local_init = {}   # local VarDecl id -> param index it is initialised from (scalars)
        self.events = []       # (param index, use, extra)
        self.lens = {}         # array param -> length param
        self.rets = []
        self.has_try = False
        self.catch_std = False
        self.handler_ok = False
        body = None
        for c in kids(decl):
            if c["kind"] == "ParmVarDecl":
                q = c["type"]["qualType"]
                self.pid[c["id"]] = len(self.params)
                self.params.append({"name": c.get("name", "_arg%d" % len(self.params)), "ctype": q, "ptype": ptype(q)})
            elif c["kind"] in ("CXXTryStmt", "CompoundStmt"):
                body = c
        self.line = decl.get("loc", {}).get("line") or decl.get("loc", {}).get("expansionLoc", {}).get("line") or 0
        if body is None:
            raise RuntimeError("%s: no body" % self.name)
        if body["kind"] == "CXXTryStmt":
            self.has_try = True
            ks = kids(body)
            main = ks[0]
            for h in ks[1:]:
                if h["kind"] == "CXXCatchStmt":
                    hk = kids(h)
                    if hk and hk[0].get("kind") == "VarDecl" and hk[0]["type"]["qualType"] == "const std::exception &":
                        self.catch_std = True
                        self.handler_ok = self.handler_returns_handle(hk[-1], hk[0]["id"])
            # the reviewed handler list is exactly [catch (const std::exception &)]: any other handler
            # (e.g. `catch (const primitiv::Error &) { return OK; }` in front of it, or `catch (...)`) takes
            # exceptions away from ErrorHandler::handle -> a row that theorem all_try_blocks rejects
            if len(ks) != 2:
                self.handler_ok = False
                self.extra_handlers = len(ks) - 2
        else:
            main = body
        self.top = main
        for st in kids(main):
            self.stmt_top(st)
        # the helper reads `*size` before it touches the buffer: put the size dereference
        # (seen later by the traversal, it is the 3rd argument) in front of its UBuf event
        for j, (p, use, extra) in enumerate(list(self.events)):
            if use == "UBuf" and extra[1][0] == "SizeParam":
                q = extra[1][1]
                for l in range(j + 1, len(self.events)):
                    if self.events[l] == (q, "UDeref", "size"):
                        self.events.insert(j, self.events.pop(l))
                        break

    @classmethod
    def unreadable(cls, decl, path, why):
        self = cls.__new__(cls)
        self.name = decl["name"]
        self.path = os.path.relpath(path, os.path.join(REPO, "primitiv", "c"))
        self.params, self.lens, self.rets = [], {}, []
        self.events = [(0, "Unknown", why)]
        self.has_try = self.catch_std = self.handler_ok = False
        self.line = 0
        self.error = why
        return self

    # the handler must be `return ErrorHandler::get_instance().handle(e);`
    def handler_returns_handle(self, comp, eid):
        sts = [s for s in kids(comp) if s["kind"] != "NullStmt"]
        if len(sts) != 1 or sts[0]["kind"] != "ReturnStmt":
            return False
        call = strip(kids(sts[0])[0])
        if call.get("kind") != "CXXMemberCallExpr" or callee_name(call) != "handle":
            return False
        base = strip(kids(strip(kids(call)[0]))[0])
        if base.get("kind") != "CallExpr" or callee_name(base) != "get_instance":
            return False
        arg = refdecl(kids(call)[1])
        return bool(arg) and arg.get("id") == eid

    def ev(self, p, use, extra=None):
        self.events.append((p, use, extra))

    # ---- statements at the top level of the try block
    def stmt_top(self, st):
        k = st["kind"]
        if k == "NullStmt":
            return
        chk = self.null_check(st)
        if chk is not None:
            kind, p = chk
            if kind == "param":
                self.ev(p, "UCheck")
                return
        if k == "ForStmt":
            ec = self.elem_check_loop(st)
            if ec is not None:
                self.ev(ec, "UElemCheckAll")
                return
        if k == "ReturnStmt":
            self.ret(st)
            return
        self.walk(st, [])

    def ret(self, st):
        ks = kids(st)
        v = strip(ks[0]) if ks else {}
        if v.get("kind") == "IntegerLiteral":
            self.rets.append(int(v["value"]))
        elif v.get("kind") == "UnaryOperator" and v.get("opcode") == "-" and strip(kids(v)[0]).get("kind") == "IntegerLiteral":
            self.rets.append(-int(strip(kids(v)[0])["value"]))
        else:
            self.rets.append(99)   # not a literal status
            self.walk(st, [])

    def null_check(self, st):
        """`if (!e) { ... throw ... }` -> ('param', index) | ('elem', index) | None"""
        if st["kind"] != "IfStmt":
            return None
        ks = kids(st)
        if len(ks) != 2:          # an else branch: not the macro's shape
            return None
        cond = strip(ks[0])
        if cond.get("kind") != "UnaryOperator" or cond.get("opcode") != "!":
            return None
        if not contains(ks[1], "CXXThrowExpr"):
            return None
        e = strip(kids(cond)[0])
        d = refdecl(e)
        if d and d.get("id") in self.pid:
            return ("param", self.pid[d["id"]])
        if e.get("kind") == "ArraySubscriptExpr":
            b = refdecl(kids(e)[0])
            if b and b.get("id") in self.pid:
                return ("elem", self.pid[b["id"]], kids(e)[1])
        return None

    def elem_check_loop(self, st):
        """`for (size_t i = 0; i < n; ++i) if (!p[i]) throw` with n the length parameter of p."""
        ks = st.get("inner", [])
        if len(ks) != 5:
            return None
        init, _, cond, inc, body = ks
        if not init or init.get("kind") != "DeclStmt":
            return None
        var = kids(init)[0]
        vi = strip(kids(var)[0]) if kids(var) else {}
        if var.get("kind") != "VarDecl" or vi.get("kind") != "IntegerLiteral" or vi.get("value") != "0":
            return None
        c = strip(cond) if cond else {}
        if c.get("kind") != "BinaryOperator" or c.get("opcode") != "<":
            return None
        l, r = refdecl(kids(c)[0]), refdecl(kids(c)[1])
        if not l or l.get("id") != var["id"] or not r or r.get("id") not in self.pid:
            return None
        i_ = strip(inc) if inc else {}
        if i_.get("kind") != "UnaryOperator" or i_.get("opcode") != "++" or (refdecl(kids(i_)[0]) or {}).get("id") != var["id"]:
            return None
        b = body
        while b.get("kind") == "CompoundStmt":
            inner = [s for s in kids(b) if s["kind"] != "NullStmt"]
            if len(inner) != 1:
                return None
            b = inner[0]
        chk = self.null_check(b)
        if not chk or chk[0] != "elem":
            return None
        idx = refdecl(chk[2])
        if not idx or idx.get("id") != var["id"]:
            return None
        p = chk[1]
        n = self.pid[r["id"]]
        if self.lens.setdefault(p, n) != n:
            return None
        return p

    # ---- generic walk: classify every reference to a parameter or to an alias of one
    def walk(self, o, stack):
        k = o.get("kind")
        if k == "IfStmt":
            chk = self.null_check(o)
            if chk is not None:
                # a check that is not a top-level statement does not dominate what follows
                self.ev(chk[1], "UCheckNested" if chk[0] == "param" else "UElemCheckNested")
                return
        if k == "ReturnStmt" and not stack_has(stack, "LambdaExpr"):
            self.ret(o)
            return
        if k == "VarDecl":
            self.var_decl(o, stack)
            return
        if k == "DeclRefExpr":
            d = o.get("referencedDecl", {})
            if d.get("id") in self.pid:
                self.use(self.pid[d["id"]], "param", o, stack)
            elif d.get("id") in self.alias:
                p, mode = self.alias[d["id"]]
                self.use(p, mode, o, stack)
            return
        ks = kids(o)
        if k == "BinaryOperator" and o.get("opcode", "").endswith("=") and o.get("opcode") not in ("==", "!=", "<=", ">=") and len(ks) == 2:
            ks = [ks[1], ks[0]]   # the right-hand side is evaluated before the store
        st2 = stack + [o]
        for c in ks:
            self.walk(c, st2)

    def var_decl(self, o, stack):
        ks = kids(o)
        if not ks:
            return
        init = strip(ks[0])
        # T *v = to_cpp_ptr(p);            alias of p as an object pointer
        if init.get("kind") == "CallExpr" and callee_name(init) == "to_cpp_ptr":
            d = refdecl(kids(init)[1])
            if d and d.get("id") in self.pid:
                self.alias[o["id"]] = (self.pid[d["id"]], "ptr")
                return
        # const T *const *v = reinterpret_cast<...>(p);      alias of p as an array
        if init.get("kind") in ("CXXReinterpretCastExpr", "CStyleCastExpr", "CXXStaticCastExpr"):
            d = refdecl(kids(init)[0])
            if d and d.get("id") in self.pid and self.params[self.pid[d["id"]]]["ptype"][0] != "PScalar":
                self.alias[o["id"]] = (self.pid[d["id"]], "array")
                return
        # size_t size = n;                  local copy of a scalar parameter
        d = refdecl(ks[0])
        if d and d.get("id") in self.pid and self.params[self.pid[d["id"]]]["ptype"][0] == "PScalar":
            self.local_init[o["id"]] = self.pid[d["id"]]
            return
        self.walk(ks[0], stack + [o])

    def use(self, p, mode, ref, stack):
        pt = self.params[p]["ptype"][0]
        if pt == "PScalar":
            # scalars are only interesting as length operands (handled where the range is seen)
            return
        # climb over transparent nodes
        i = len(stack) - 1
        child = ref
        while i >= 0 and stack[i].get("kind") in TRANSPARENT:
            child = stack[i]
            i -= 1
        par = stack[i] if i >= 0 else {}
        pk = par.get("kind")
        if mode == "param" and pk == "CallExpr" and callee_name(par) == "to_cpp_ptr":
            self.use_objptr(p, par, stack[:i])
            return
        if mode == "ptr":
            self.use_objptr(p, child, stack[:i + 1], direct_parent=par)
            return
        if pk == "UnaryOperator" and par.get("opcode") == "*":
            gi = i - 1
            while gi >= 0 and stack[gi].get("kind") in TRANSPARENT:
                gi -= 1
            g = stack[gi] if gi >= 0 else {}
            if g.get("kind") == "BinaryOperator" and g.get("opcode") == "=" and strip(kids(g)[0]) is par:
                self.ev(p, "UStore")
            else:
                self.ev(p, "UDeref", "star")
            return
        if pk == "ArraySubscriptExpr" and strip(kids(par)[0]) is strip(child):
            self.ev(p, "UDeref", "index")
            self.elem_use(p, par, stack[:i])
            return
        if pk == "BinaryOperator" and par.get("opcode") == "+":
            other = kids(par)[1] if strip(kids(par)[0]) is strip(child) else kids(par)[0]
            d = refdecl(other)
            if d and d.get("id") in self.pid:
                n = self.pid[d["id"]]
                if self.lens.setdefault(p, n) != n:
                    self.ev(p, "Unknown", "two length parameters")
            self.ev(p, "UDeref", "range")
            self.range_elems(p)
            return
        if pk in ("CXXTemporaryObjectExpr", "CXXConstructExpr", "CXXFunctionalCastExpr") and "vector" in par.get("type", {}).get("qualType", ""):
            self.ev(p, "UDeref", "range")
            self.range_elems(p)
            return
        if pk == "CallExpr" and callee_name(par) in HELPERS:
            args = kids(par)[1:]
            which = -1
            for ai, a in enumerate(args):
                if strip(a) is strip(child):
                    which = ai
            h = callee_name(par)
            if which == 1:
                src = self.size_source(args[2])
                self.ev(p, "UBuf", (h, src))
                return
            if which == 2:
                self.ev(p, "UDeref", "size")
                return
            self.ev(p, "UDeref", "raw")
            return
        if pk in ("CXXReinterpretCastExpr", "CStyleCastExpr", "CXXStaticCastExpr"):
            # a cast that is not the initialiser of a local: treat the cast value like p itself
            self.use(p, mode, par, stack[:i])
            return
        if pt == "PCStr":
            self.ev(p, "UDeref", "cstr")
            return
        # any other appearance of a raw pointer: handed to C++ code that reads through it
        self.ev(p, "UDeref", "raw")

    def size_source(self, arg):
        a = strip(arg)
        d = refdecl(a)
        if d and d.get("id") in self.pid:
            return ("SizeParam", self.pid[d["id"]])
        if a.get("kind") == "UnaryOperator" and a.get("opcode") == "&":
            d = refdecl(kids(a)[0])
            if d and d.get("id") in self.local_init:
                return ("SizeLocal", self.local_init[d["id"]])
        return ("SizeUnknown", 0)

    def use_objptr(self, p, node, stack, direct_parent=None):
        """`node` is an expression of type `primitiv::X *` derived from parameter p."""
        i = len(stack) - 1
        while i >= 0 and stack[i].get("kind") in TRANSPARENT:
            i -= 1
        par = stack[i] if i >= 0 else {}
        pk = par.get("kind")
        if pk == "UnaryOperator" and par.get("opcode") == "*":
            self.ev(p, "UDeref", "star")
        elif pk == "MemberExpr" and par.get("isArrow"):
            self.ev(p, "UDeref", "arrow")
        elif pk == "CXXDeleteExpr":
            self.ev(p, "UDeref", "delete")
        elif pk in ("CallExpr", "CXXMemberCallExpr", "CXXConstructExpr", "CXXTemporaryObjectExpr", "CXXNewExpr",
                    "InitListExpr"):
            self.ev(p, "UPass")
        else:
            self.ev(p, "Unknown", "object pointer used in %s" % pk)

    def elem_use(self, p, sub, stack):
        """p[i]: what happens to the element"""
        pt = self.params[p]["ptype"][0]
        if pt == "PDataPtr":
            return
        i = len(stack) - 1
        while i >= 0 and stack[i].get("kind") in TRANSPARENT:
            i -= 1
        par = stack[i] if i >= 0 else {}
        self.ev(p, "UElemUse", "index")

    def range_elems(self, p):
        pt = self.params[p]["ptype"][0]
        if pt in ("PObjPtrPtr", "PCStrPtr"):
            if not (self.events and self.events[-1] == (p, "UElemUse", "range")) and (p, "UElemUse", "range") not in self.events:
                self.ev(p, "UElemUse", "range")


def stack_has(stack, kind):
    return any(s.get("kind") == kind for s in stack)


# --------------------------------------------------------------------------- helpers of internal.h

def find_all(o, pred, out):
    if pred(o):
        out.append(o)
    for c in kids(o):
        find_all(c, pred, out)
    return out


def member_call_name(o):
    o = strip(o)
    if o.get("kind") in ("CXXMemberCallExpr", "CallExpr"):
        c = strip(kids(o)[0])
        if c.get("kind") in ("MemberExpr", "CXXDependentScopeMemberExpr"):
            return c.get("name") or c.get("member")
    return None


def size_expr(o):
    """`src.size()` -> ('len', 0); `str.length() + 1u` -> ('len', 1)"""
    o = strip(o)
    if o.get("kind") == "BinaryOperator" and o.get("opcode") == "+":
        a, b = strip(kids(o)[0]), strip(kids(o)[1])
        if member_call_name(a) in ("size", "length") and b.get("kind") == "IntegerLiteral":
            return ("len", int(b["value"]))
        return None
    if member_call_name(o) in ("size", "length"):
        return ("len", 0)
    return None


def helper_facts(ns_text):
    """comparison and size-query facts of the three helpers + ErrorHandler::handle / reset."""
    ns = json.loads(ns_text)
    facts = {}

    def is_fn(name):
        return lambda o: o.get("kind") in ("FunctionDecl", "CXXMethodDecl") and o.get("name") == name and \
            any(c.get("kind") == "CompoundStmt" for c in kids(o))
    class Unreadable(Exception):
        pass

    def read_helper(h):
        """facts of one helper; `guard_plain` = the outer condition is exactly the buffer pointer.
        Raises Unreadable for a shape the patterns do not cover."""
        fs = find_all(ns, is_fn(h), [])
        if not fs:
            raise Unreadable("not found in internal.h")
        f = fs[0]      # the template pattern (first) -- all instantiations share it
        body = [c for c in kids(f) if c.get("kind") == "CompoundStmt"][0]
        top = [s for s in kids(body) if s["kind"] != "NullStmt"]
        if len(top) != 1 or top[0]["kind"] != "IfStmt" or len(kids(top[0])) != 3:
            raise Unreadable("body is not `if (buf) {...} else {...}`")
        cond, then, els = kids(top[0])
        cd = refdecl(cond)
        params = [c for c in kids(f) if c.get("kind") == "ParmVarDecl"]
        if len(params) != 3:
            raise Unreadable("not three parameters")
        guard_plain = bool(cd) and cd.get("id") == params[1]["id"]
        ifs = [s for s in kids(then) if s.get("kind") == "IfStmt"]
        if len(ifs) != 1 or not contains(kids(ifs[0])[1], "CXXThrowExpr") or len(kids(ifs[0])) != 2:
            raise Unreadable("no single size test with a throw")
        cmp_ = strip(kids(ifs[0])[0])
        if cmp_.get("kind") != "BinaryOperator":
            raise Unreadable("size test is not a comparison")
        lhs = strip(kids(cmp_)[0])
        lhs_ok = lhs.get("kind") == "UnaryOperator" and lhs.get("opcode") == "*" and \
            (refdecl(kids(lhs)[0]) or {}).get("id") == params[2]["id"]
        rhs = size_expr(kids(cmp_)[1])
        if not lhs_ok or rhs is None:
            raise Unreadable("size test is not `*size <op> src.size()`")
        msg = [s["value"] for s in find_all(kids(ifs[0])[1], lambda o: o.get("kind") == "StringLiteral" and "Size" in o.get("value", ""), [])]
        # statements of the then-branch before/after the test: the copy must come after it
        order = [s.get("kind") for s in kids(then) if s.get("kind") != "NullStmt"]
        copy_after_test = order and order[0] == "IfStmt" and len(order) == 2
        asg = [s for s in kids(els) if strip(s).get("kind") == "BinaryOperator" and strip(s).get("opcode") == "="]
        if len(asg) != 1 or len([s for s in kids(els) if s.get("kind") != "NullStmt"]) != 1:
            raise Unreadable("else branch is not one assignment")
        a = strip(asg[0])
        al = strip(kids(a)[0])
        al_ok = al.get("kind") == "UnaryOperator" and al.get("opcode") == "*" and (refdecl(kids(al)[0]) or {}).get("id") == params[2]["id"]
        ar = size_expr(kids(a)[1])
        if not al_ok or ar is None:
            raise Unreadable("else branch is not `*size = src.size()`")
        return {"cmp": cmp_["opcode"], "cmp_plus": rhs[1], "query_plus": ar[1], "copy_after_test": bool(copy_after_test),
                "message": msg[0].strip('"') if msg else "", "guard_plain": guard_plain, "recognised": True,
                "why": "" if guard_plain else "the outer condition is not just the buffer pointer"}

    for h in HELPERS:
        try:
            facts[h] = read_helper(h)
        except Exception as ex:   # an unrecognised shape: a marker no theorem accepts, never a crash
            facts[h] = {"cmp": "?", "cmp_plus": 0, "query_plus": 0, "copy_after_test": False, "message": "",
                        "guard_plain": False, "recognised": False, "why": "%s: %s" % (type(ex).__name__, ex)}
    # ErrorHandler::handle returns PRIMITIV_C_ERROR and stores e.what(); reset stores "OK"
    hs = find_all(ns, is_fn("handle"), [])
    rs = find_all(ns, is_fn("reset"), [])
    ctor = find_all(ns, lambda o: o.get("kind") == "CXXConstructorDecl" and o.get("name") == "ErrorHandler" and
                    any(c.get("kind") == "CXXCtorInitializer" for c in kids(o)), [])
    if not hs or not rs:
        facts["handler"] = {"handle_returns": 99, "handle_stores_what": False, "reset_message": "?", "initial_message": "?"}
        return facts
    rets = find_all(hs[0], lambda o: o.get("kind") == "ReturnStmt", [])
    rv = strip(kids(rets[0])[0]) if rets else {}
    if rv.get("kind") == "UnaryOperator" and rv.get("opcode") == "-":
        hv = -int(strip(kids(rv)[0]).get("value", "0"))
    elif rv.get("kind") == "IntegerLiteral":
        hv = int(rv["value"])
    else:
        hv = 99
    stores_what = bool(find_all(hs[0], lambda o: member_call_name(o) == "what", []))
    reset_lits = [s["value"].strip('"') for s in find_all(rs[0], lambda o: o.get("kind") == "StringLiteral", [])]
    init_lits = [s["value"].strip('"') for s in find_all(ctor[0], lambda o: o.get("kind") == "StringLiteral", [])] if ctor else []
    facts["handler"] = {"handle_returns": hv, "handle_stores_what": stores_what,
                        "reset_message": reset_lits[0] if len(reset_lits) == 1 else "?",
                        "initial_message": init_lits[0] if len(init_lits) == 1 else "?"}
    # thread_local storage of the instance (internal.cc)
    return facts


def thread_local_handler():
    src = open(os.path.join(REPO, "primitiv", "c", "internal", "internal.cc")).read()
    src = re.sub(r"//[^\n]*", "", src)
    return bool(re.search(r"static\s+thread_local\s+ErrorHandler\s+error_handler\s*;", src)) and \
        bool(re.search(r"ErrorHandler::get_instance\(\)\s*\{\s*return\s+error_handler\s*;\s*\}", src))


# --------------------------------------------------------------------------- output

def coq_str(s):
    return '"' + s.replace('"', '""') + '"'


def coq_ptype(t):
    k = t[0]
    if k == "PScalar":
        return "PScalar"
    if k == "PObjPtr":
        return "(PObjPtr %s %s)" % ("true" if t[1] else "false", coq_str(t[2]))
    if k == "PObjPtrPtr":
        return "(PObjPtrPtr %s)" % coq_str(t[2])
    if k == "PDataPtr":
        return "(PDataPtr %s)" % ("true" if t[1] else "false")
    return k


def coq_event(e, fn):
    p, use, extra = e
    if use == "UDeref":
        u = "(UDeref D%s)" % extra
    elif use == "UBuf":
        h, src = extra
        hh = {"copy_vector_to_array": "HCopyVector", "copy_string_to_array": "HCopyString",
              "move_vector_to_array_of_c_ptrs": "HMoveVector"}[h]
        u = "(UBuf %s (%s %d))" % (hh, src[0], src[1]) if src[0] != "SizeUnknown" else "(UBuf %s SizeUnknown)" % hh
    elif use == "Unknown":
        u = "UUnknown"
    else:
        u = use
    return "Ev %d %s" % (p, u)


def emit(fns, facts, tl, files):
    L = []
    L.append("(* GENERATED by translate/gen_capi.py from %s/primitiv/c/**/*.cc -- do not edit." % ("/repo" if REPO == "/repo" else "a scratch copy of /repo"))
    L.append("   One record per exported wrapper (clang JSON AST, macros expanded); see the header of the")
    L.append("   translator for the meaning of the events.  Files read: %s *)" % " ".join(os.path.relpath(f, os.path.join(REPO, "primitiv", "c")) for f in files))
    L.append("From Coq Require Import List String ZArith.")
    L.append("From PV Require Import CApi.Wrapper.")
    L.append("Import ListNotations.")
    L.append("Local Open Scope string_scope.")
    L.append("")
    names = []
    for f in fns:
        ident = "w_" + f.name
        names.append(ident)
        L.append("Definition %s : wrapper := {|" % ident)
        L.append("  w_name := %s; w_file := %s;" % (coq_str(f.name), coq_str(f.path)))
        ps = ["mkParam %s %s %s" % (coq_str(p["name"]), coq_ptype(p["ptype"]),
                                    ("(Some %d)" % f.lens[i]) if i in f.lens else "None") for i, p in enumerate(f.params)]
        L.append("  w_params := [%s];" % ";\n               ".join(ps))
        L.append("  w_events := [%s];" % "; ".join(coq_event(e, f) for e in f.events))
        L.append("  w_try := %s; w_catch_std := %s; w_handler := %s;" % tuple("true" if b else "false" for b in (f.has_try, f.catch_std, f.handler_ok)))
        L.append("  w_rets := [%s] |}." % "; ".join("(%d)%%Z" % r for r in f.rets))
        L.append("")
    L.append("Definition table : list wrapper :=\n  [%s]." % ";\n   ".join(names))
    L.append("")
    hmap = {"copy_vector_to_array": "HCopyVector", "copy_string_to_array": "HCopyString",
            "move_vector_to_array_of_c_ptrs": "HMoveVector"}
    cmpmap = {"<": "CLt", "<=": "CLe", ">": "CGt", ">=": "CGe", "==": "CEq", "!=": "CNe"}
    L.append("(* c/internal/internal.h (last flag: the outer condition is exactly `if (buf)` and the shape was recognised): `if (buf) { if ( *size CMP src.size() + a ) throw; copy } else { *size = src.size() + b }` *)")
    L.append("Definition helper_table : list (helper * helper_code) :=")
    rows = []
    for h in HELPERS:
        x = facts[h]
        rows.append("(%s, mkHelperCode %s %d %d %s %s %s)" % (hmap[h], cmpmap.get(x["cmp"], "CNe"), x["cmp_plus"], x["query_plus"],
                                                             "true" if x["copy_after_test"] else "false",
                                                             "true" if (x["guard_plain"] and x["recognised"]) else "false", coq_str(x["message"])))
    L.append("  [%s]." % ";\n   ".join(rows))
    hd = facts["handler"]
    L.append("")
    L.append("(* ErrorHandler: value returned by handle(e), whether it stores e.what(), message after reset() and")
    L.append("   after construction, and whether the instance is `static thread_local` (internal.cc) *)")
    L.append("Definition handler_code : handler_facts :=")
    L.append("  mkHandlerFacts (%d)%%Z %s %s %s %s." % (hd["handle_returns"], "true" if hd["handle_stores_what"] else "false",
                                                      coq_str(hd["reset_message"]), coq_str(hd["initial_message"]), "true" if tl else "false"))
    return "\n".join(L) + "\n"


def analyse():
    bdir = build_dir()
    files = source_files(bdir)
    with concurrent.futures.ThreadPoolExecutor(max_workers=8) as ex:
        res = list(ex.map(lambda f: ast_chunks(f, bdir), files))
    fns, ns_text = [], None
    for f, (decls, others) in zip(files, res):
        for d in decls:
            if not d.get("name", "").startswith("primitiv"):
                continue
            if not any(c.get("kind") in ("CXXTryStmt", "CompoundStmt") for c in kids(d)):
                continue        # a prototype
            try:
                fns.append(Fn(d, f))
            except Exception as ex:      # a wrapper the patterns cannot read: a row no theorem accepts
                fns.append(Fn.unreadable(d, f, "%s: %s" % (type(ex).__name__, ex)))
        if others and ns_text is None:
            ns_text = others[0]
    if ns_text is None:
        ns_text = '{"kind": "NamespaceDecl", "inner": []}'   # every helper becomes `unrecognised`
    seen = {}
    for f in fns:
        if f.name in seen:
            raise RuntimeError("wrapper %s defined twice" % f.name)
        seen[f.name] = f
    facts = helper_facts(ns_text)
    return fns, facts, thread_local_handler(), files


def _atomic_write(path, text):
    """write through a temporary file of this process and rename: a concurrent reader never sees a half-written file"""
    tmp = "%s.tmp.%d" % (path, os.getpid())
    with open(tmp, "w") as f:
        f.write(text)
    os.replace(tmp, path)


def main():
    fns, facts, tl, files = analyse()
    if len(fns) < 10:
        raise RuntimeError("only %d wrappers found" % len(fns))
    txt = emit(fns, facts, tl, files)
    os.makedirs(os.path.dirname(OUT_V), exist_ok=True)
    old = open(OUT_V).read() if os.path.exists(OUT_V) else None
    if old != txt:           # keep the timestamp when nothing changed (no needless recompilation)
        _atomic_write(OUT_V, txt)
    os.makedirs(os.path.dirname(OUT_JSON), exist_ok=True)
    js = {"repo": REPO, "functions": [
        {"name": f.name, "file": f.path, "line": f.line,
         "params": [{"name": p["name"], "ctype": p["ctype"], "kind": p["ptype"][0],
                     "const": (p["ptype"][1] if p["ptype"][0] in ("PObjPtr", "PObjPtrPtr", "PDataPtr") else None),
                     "cls": (p["ptype"][2] if p["ptype"][0] in ("PObjPtr", "PObjPtrPtr", "PDataPtr") else (p["ptype"][1] if p["ptype"][0] == "PScalar" else None)),
                     "len_param": f.lens.get(i)} for i, p in enumerate(f.params)],
         "events": [[p, u, x] for (p, u, x) in f.events],
         "try": f.has_try, "catch_std": f.catch_std, "handler": f.handler_ok, "rets": f.rets,
         "unreadable": getattr(f, "error", None)} for f in fns],
        "helpers": facts, "thread_local": tl}
    _atomic_write(OUT_JSON, json.dumps(js, indent=1))
    return js


if __name__ == "__main__":
    js = main()
    print("%d wrappers -> %s" % (len(js["functions"]), OUT_V))
