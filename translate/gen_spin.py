#!/usr/bin/env python3
"""Translator (T) for C19: primitiv/core/spinlock.h -> coq/Gen/SpinGen.v.

Reads the clang JSON AST of Spinlock and RecursiveSpinlock and writes every
method body (try_lock, lock, unlock) as a term of the instruction language of
coq/Spin/Lang.v, memory orders included.  Gen/SpinGen.v holds the plain variant (hooks OFF: what
users build).  Gen/SpinDecls.v holds (a) the variant every build of /verif compiles
(-DPRIMITIV_VERIF_HOOKS) with the calls of the scheduling hook erased -- obligation
gen_hooks_agree (Spin/GenMatchesDecls.v): it is the same program --, and (b) for both variants the
DECLARATIONS of the two classes (bases, every field with its type and initialiser, every declared
member function, constructor, ... with its type; for the hooks variant also HookedFlag and its two
forwarding bodies) -- obligations gen_decls_reviewed / gen_decls_hooks_reviewed: they are the
reviewed ones (a std::uint8_t lock_count_, an extra method touching the fields, another initial
value are all outside what the theorems speak about).  Normalisation: comments/whitespace do not reach the
AST; null statements, nested compound statements, parentheses, implicit casts, temporaries and
copy constructions are dropped; locals initialised with std::this_thread::get_id() or
std::thread::id() are replaced by the value they hold (so renaming them changes nothing).
Anything the language cannot express makes the translator fail loudly (the check then reports
that the model can no longer be tied to the source)."""
import json
import os
import subprocess
import sys

ROOT = "/verif"
OUT = os.path.join(ROOT, "coq", "Gen", "SpinGen.v")
OUT_DECLS = os.path.join(ROOT, "coq", "Gen", "SpinDecls.v")

ORDERS = {"memory_order_relaxed": "Relaxed", "memory_order_consume": "Consume",
          "memory_order_acquire": "Acquire", "memory_order_release": "Release",
          "memory_order_acq_rel": "AcqRel", "memory_order_seq_cst": "SeqCst"}
FLAG, OWNER, COUNT = "ready_", "locked_thread_id_", "lock_count_"
METHS = {"try_lock": "MTry", "lock": "MLock", "unlock": "MUnlock"}


class TranslateError(Exception):
    pass


def repo():
    return os.environ.get("PV_REPO", "/repo")


def dump_ast(header, hooks=False, filt="Spinlock"):
    inc = [a for a in ("-I" + repo(), "-I" + os.path.join(ROOT, "_work", "build-plain")) if os.path.isdir(a[2:])]
    cmd = ["clang++", "-x", "c++", "-std=c++11", "-fsyntax-only", "-DPRIMITIV_VERIF_HOOKS" if hooks else "-UPRIMITIV_VERIF_HOOKS"] + inc + \
          ["-Xclang", "-ast-dump=json", "-Xclang", "-ast-dump-filter=" + filt, header]
    p = subprocess.run(cmd, stdout=subprocess.PIPE, stderr=subprocess.PIPE, text=True, timeout=300)
    if p.returncode != 0:
        raise TranslateError("clang failed on %s:\n%s" % (header, p.stderr[-2000:]))
    docs, dec, i, s = [], json.JSONDecoder(), 0, p.stdout
    while True:
        while i < len(s) and s[i] != "{":
            i += 1
        if i >= len(s):
            break
        obj, i = dec.raw_decode(s, i)
        docs.append(obj)
    return docs


def find_class(docs, name):
    for d in docs:
        if d.get("kind") == "CXXRecordDecl" and d.get("name") == name and d.get("completeDefinition"):
            return d
    raise TranslateError("class %s not found in the AST" % name)


TRANSPARENT = {"ExprWithCleanups", "ImplicitCastExpr", "MaterializeTemporaryExpr", "ParenExpr",
               "CXXBindTemporaryExpr", "CXXFunctionalCastExpr", "ConstantExpr", "CXXStaticCastExpr"}


def strip(e):
    """Drop wrappers that do not change the value (casts, temporaries, copy constructions)."""
    while True:
        k = e.get("kind")
        inner = e.get("inner", [])
        if k in TRANSPARENT and len(inner) == 1:
            e = inner[0]
        elif k == "CXXConstructExpr" and len(inner) == 1:
            e = inner[0]
        else:
            return e


def qual(e):
    return (e.get("type") or {}).get("qualType", "")


def field_of(e):
    """name of the member of *this an expression denotes, or None"""
    e = strip(e)
    if e.get("kind") == "MemberExpr" and e.get("inner") and strip(e["inner"][0]).get("kind") == "CXXThisExpr":
        return e.get("name")
    return None


def order_of(args, what):
    if not args:
        return "SeqCst"
    a = strip(args[0])
    if a.get("kind") == "CXXDefaultArgExpr":
        return "SeqCst"
    if a.get("kind") == "DeclRefExpr":
        n = (a.get("referencedDecl") or {}).get("name")
        if n in ORDERS:
            return ORDERS[n]
    raise TranslateError("memory order of %s is not a memory_order_* constant" % what)


COMMENTS = ("FullComment", "ParagraphComment", "TextComment", "BlockCommandComment")


def sx(e):
    """canonical text of an expression / statement (value-preserving wrappers dropped): used for
    initialisers and for the two forwarding bodies of HookedFlag"""
    e = strip(e)
    bits = [e.get("kind", "?")]
    for key in ("name", "opcode", "value", "castKind"):
        if key in e:
            bits.append(str(e[key]))
    if e.get("isPostfix"):
        bits.append("postfix")
    if e.get("referencedDecl"):
        bits.append(str(e["referencedDecl"].get("name")))
    if e.get("kind") in ("CXXConstructExpr", "CXXTemporaryObjectExpr", "InitListExpr", "CXXScalarValueInitExpr"):
        bits.append("<" + qual(e) + ">")
    return "(" + " ".join(bits + [sx(c) for c in e.get("inner", []) if c.get("kind") not in COMMENTS]) + ")"


def sched_call(s):
    """`::primitiv::verif::sched_point(&ready_ | this, <literal>)`: the scheduling hook; returns the point or None"""
    e = strip(s)
    if e.get("kind") != "CallExpr" or len(e.get("inner", [])) != 3:
        return None
    f = strip(e["inner"][0])
    if f.get("kind") != "DeclRefExpr" or (f.get("referencedDecl") or {}).get("name") != "sched_point":
        return None
    a, n = strip(e["inner"][1]), strip(e["inner"][2])
    while a.get("kind") in ("ImplicitCastExpr", "CStyleCastExpr") and len(a.get("inner", [])) == 1:
        a = strip(a["inner"][0])
    addr_ok = a.get("kind") == "CXXThisExpr" or (a.get("kind") == "UnaryOperator" and a.get("opcode") == "&"
                                                 and field_of(a["inner"][0]) == FLAG)
    if not addr_ok or n.get("kind") != "IntegerLiteral":
        raise TranslateError("scheduling hook called with something else than (&ready_ | this, <literal>)")
    return int(n["value"])


def type_of(d):
    t = d.get("type") or {}
    q, dq = t.get("qualType", ""), t.get("desugaredQualType")
    return q if not dq or dq == q else "%s = %s" % (q, dq)


def class_decls(c, cname):
    """one line per base, field (type, initialiser) and declared member of the class"""
    out = []
    for b in c.get("bases", []):
        out.append("%s base %s%s %s" % (cname, b.get("access", "?"), " virtual" if b.get("isVirtual") else "", (b.get("type") or {}).get("qualType", "?")))
    for m in c.get("inner", []):
        k = m.get("kind")
        if m.get("isImplicit") or k in ("AccessSpecDecl",) + COMMENTS:
            continue
        if k == "FieldDecl":
            init = [x for x in m.get("inner", []) if x.get("kind") not in COMMENTS]
            out.append("%s field %s : %s%s%s = %s" % (cname, m.get("name"), type_of(m), " mutable" if m.get("mutable") else "",
                                                    " bitfield" if m.get("isBitfield") else "", sx(init[0]) if init else "none"))
        else:
            flags = "".join(" " + f for f, on in (("static", m.get("storageClass") == "static"), ("virtual", m.get("virtual")),
                                                  ("deleted", m.get("explicitlyDeleted")), ("defaulted", m.get("explicitlyDefaulted"))) if on)
            out.append("%s %s %s : %s%s" % (cname, k, m.get("name", "?"), type_of(m), flags))
    return out


def hooked_flag_decls(docs):
    """verif::HookedFlag (hooks-on builds): declarations + the two bodies with the hook calls erased"""
    c = find_class(docs, "HookedFlag")
    out = class_decls(c, "HookedFlag")
    for m in c.get("inner", []):
        if m.get("kind") == "CXXMethodDecl" and not m.get("isImplicit"):
            body = [x for x in m.get("inner", []) if x.get("kind") == "CompoundStmt"]
            if not body:
                raise TranslateError("HookedFlag::%s has no inline body" % m.get("name"))
            pts, rest = [], []
            for st in body[0].get("inner", []):
                p = sched_call(st)
                if p is None:
                    rest.append(sx(st))
                else:
                    pts.append(p)
            out.append("HookedFlag::%s hook points [%s] body %s" % (m.get("name"), " ".join(map(str, pts)), " ".join(rest)))
    return out


class Body:
    def __init__(self, cname):
        self.cname = cname
        self.env = {}      # local variable id -> "Self" | "Nobody"
        self.points = []   # scheduling-hook calls erased from the body (hooks-on variant)

    # ---- thread id values
    def tidv(self, e):
        e = strip(e)
        k = e.get("kind")
        if k == "CallExpr":
            f = strip(e["inner"][0])
            if f.get("kind") == "DeclRefExpr" and (f.get("referencedDecl") or {}).get("name") == "get_id" and len(e["inner"]) == 1:
                return "Self"
        if k in ("CXXTemporaryObjectExpr", "CXXConstructExpr", "CXXScalarValueInitExpr") and not e.get("inner") and "thread::id" in qual(e):
            return "Nobody"
        if k == "DeclRefExpr":
            d = e.get("referencedDecl") or {}
            if d.get("id") in self.env:
                return self.env[d["id"]]
        return None

    # ---- reads of the owner field: returns the order or None
    def owner_load(self, e):
        e = strip(e)
        k = e.get("kind")
        if k == "CXXMemberCallExpr":
            callee = strip(e["inner"][0])
            if callee.get("kind") == "MemberExpr" and field_of(callee["inner"][0]) == OWNER:
                if callee.get("name") == "load":
                    return order_of(e["inner"][1:], "locked_thread_id_.load")
                if callee.get("name", "").startswith("operator"):
                    return "SeqCst"   # implicit conversion of the atomic = load(seq_cst)
        if field_of(e) == OWNER:
            return "SeqCst" if "atomic" in qual(e) else "NonAtomic"
        return None

    def dec_count(self, e):
        e = strip(e)
        return e.get("kind") == "UnaryOperator" and e.get("opcode") == "--" and not e.get("isPostfix") \
            and field_of(e["inner"][0]) == COUNT

    def is_zero(self, e):
        e = strip(e)
        return e.get("kind") == "IntegerLiteral" and e.get("value") == "0"

    def expr(self, e):
        e = strip(e)
        k = e.get("kind")
        if k == "CXXBoolLiteralExpr":
            return "EConst %s" % ("true" if e.get("value") else "false")
        if k == "UnaryOperator" and e.get("opcode") == "!":
            return "ENot (%s)" % self.expr(e["inner"][0])
        if k == "CXXMemberCallExpr":
            callee = strip(e["inner"][0])
            if callee.get("kind") != "MemberExpr":
                raise TranslateError("unsupported call in %s" % self.cname)
            base, name, args = callee["inner"][0], callee.get("name"), e["inner"][1:]
            if strip(base).get("kind") == "CXXThisExpr" and name in METHS and not args:
                return "ECall %s" % METHS[name]
            if field_of(base) == FLAG and name == "test_and_set":
                return "ETas %s" % order_of(args, "test_and_set")
            raise TranslateError("unsupported member call .%s in %s" % (name, self.cname))
        if k in ("CXXOperatorCallExpr", "BinaryOperator"):
            if k == "CXXOperatorCallExpr":
                f = strip(e["inner"][0])
                op = ((f.get("referencedDecl") or {}).get("name") or "").replace("operator", "")
                ops = e["inner"][1:]
            else:
                op, ops = e.get("opcode"), e["inner"]
            if op in ("==", "!=") and len(ops) == 2:
                for a, b in ((ops[0], ops[1]), (ops[1], ops[0])):
                    o, v = self.owner_load(a), self.tidv(b)
                    if o is not None and v is not None:
                        return "%s %s %s" % ("EOwnerNe" if op == "!=" else "EOwnerEq", o, v)
                    if op == "==" and self.dec_count(a) and self.is_zero(b):
                        return "EDecIsZero"
            raise TranslateError("unsupported comparison in %s" % self.cname)
        raise TranslateError("unsupported expression kind %s in %s" % (k, self.cname))

    # ---- statements
    def block(self, s):
        """list of instruction strings for a statement (compound statements are flattened)"""
        if s is None:
            return []
        k = s.get("kind")
        if k == "CompoundStmt":
            out = []
            for c in s.get("inner", []):
                out += self.block(c)
            return out
        if k == "NullStmt":
            return []
        if k == "DeclStmt":
            for d in s.get("inner", []):
                if d.get("kind") != "VarDecl" or not d.get("inner"):
                    raise TranslateError("unsupported declaration in %s" % self.cname)
                v = self.tidv(d["inner"][-1])
                if v is None:
                    raise TranslateError("local %s in %s is not a thread id value" % (d.get("name"), self.cname))
                self.env[d["id"]] = v
            return []
        if k == "IfStmt":
            if s.get("hasInit") or s.get("hasVar"):
                raise TranslateError("if with initialiser in %s" % self.cname)
            inner = s["inner"]
            c = self.expr(inner[0])
            th = self.block(inner[1])
            el = self.block(inner[2]) if len(inner) > 2 else []
            return ["If (%s) %s %s" % (c, lst(th), lst(el))]
        if k == "WhileStmt":
            if s.get("hasVar"):
                raise TranslateError("while with declaration in %s" % self.cname)
            return ["While (%s) %s" % (self.expr(s["inner"][0]), lst(self.block(s["inner"][1])))]
        if k == "ReturnStmt":
            inner = s.get("inner", [])
            return ["Ret None"] if not inner else ["Ret (Some (%s))" % self.expr(inner[0])]
        p = sched_call(s)
        if p is not None:      # a scheduling point: no access to the lock's state
            self.points.append(p)
            return []
        return [self.stmt_expr(s)]

    def stmt_expr(self, s):
        e = strip(s)
        k = e.get("kind")
        if k == "UnaryOperator" and e.get("opcode") in ("++", "--") and field_of(e["inner"][0]) == COUNT:
            return "IncCount" if e["opcode"] == "++" else "DecCount"
        if k == "CompoundAssignOperator" and e.get("opcode") in ("+=", "-=") and field_of(e["inner"][0]) == COUNT:
            r = strip(e["inner"][1])
            if r.get("kind") == "IntegerLiteral" and r.get("value") == "1":
                return "IncCount" if e["opcode"] == "+=" else "DecCount"
        if k == "CXXMemberCallExpr":
            callee = strip(e["inner"][0])
            if callee.get("kind") == "MemberExpr":
                base, name, args = callee["inner"][0], callee.get("name"), e["inner"][1:]
                if field_of(base) == FLAG and name == "clear":
                    return "Clear %s" % order_of(args, "clear")
                if field_of(base) == OWNER and name == "store" and args:
                    v = self.tidv(args[0])
                    if v is None:
                        raise TranslateError("stored owner value not recognised in %s" % self.cname)
                    return "StoreOwner %s %s" % (v, order_of(args[1:], "locked_thread_id_.store"))
        if k in ("CXXOperatorCallExpr", "BinaryOperator"):
            if k == "CXXOperatorCallExpr":
                f = strip(e["inner"][0])
                op = ((f.get("referencedDecl") or {}).get("name") or "").replace("operator", "")
                ops = e["inner"][1:]
            else:
                op, ops = e.get("opcode"), e["inner"]
            if op == "=" and len(ops) == 2 and field_of(ops[0]) == OWNER:
                v = self.tidv(ops[1])
                if v is None:
                    raise TranslateError("assigned owner value not recognised in %s" % self.cname)
                return "StoreOwner %s %s" % (v, "SeqCst" if "atomic" in qual(strip(ops[0])) else "NonAtomic")
        return "Do (%s)" % self.expr(e)


def lst(items):
    return "[" + "; ".join(items) + "]"


def translate_class(docs, cname, decls=None):
    c = find_class(docs, cname)
    bodies = {}
    if decls is not None:
        decls += class_decls(c, cname)
    for m in c.get("inner", []):
        if m.get("kind") == "CXXMethodDecl" and m.get("name") in METHS and not m.get("isImplicit"):
            body = [x for x in m.get("inner", []) if x.get("kind") == "CompoundStmt"]
            if not body:
                raise TranslateError("%s::%s has no inline body" % (cname, m["name"]))
            if m["name"] in bodies:
                raise TranslateError("%s::%s is overloaded" % (cname, m["name"]))
            b = Body("%s::%s" % (cname, m["name"]))
            bodies[m["name"]] = b.block(body[0])
            if decls is not None and b.points:
                decls.append("%s::%s hook points [%s]" % (cname, m["name"], " ".join(map(str, b.points))))
    for n in METHS:
        if n not in bodies:
            raise TranslateError("%s::%s not found" % (cname, n))
    return bodies


def render(b):
    return ("{| try_lock_body := %s;\n     lock_body := %s;\n     unlock_body := %s |}"
            % (lst(b["try_lock"]), lst(b["lock"]), lst(b["unlock"])))


def generate():
    header = os.path.join(repo(), "primitiv", "core", "spinlock.h")
    docs = dump_ast(header)
    sp = translate_class(docs, "Spinlock")
    rs = translate_class(docs, "RecursiveSpinlock")
    return ("(* GENERATED by translate/gen_spin.py from primitiv/core/spinlock.h -- do not edit.\n"
            "   Regenerated on every run of ./check C19. *)\n"
            "From Coq Require Import List.\nFrom PV Require Import Spin.Lang.\nImport ListNotations.\n\n"
            "Definition gen_spin : cls :=\n  %s.\n\nDefinition gen_rspin : cls :=\n  %s.\n\n"
            "Definition prog : Lang.prog := {| spin_cls := gen_spin; rspin_cls := gen_rspin |}.\n"
            "Definition gen_prog : Lang.prog := prog.\n"
            % (render(sp), render(rs)))


def coq_strings(items):
    return "[" + ";\n   ".join('"%s"' % i.replace('"', '""') for i in items) + "]"


def generate_decls():
    """Gen/SpinDecls.v: declarations of both variants + the program of the hooks-on variant"""
    header = os.path.join(repo(), "primitiv", "core", "spinlock.h")
    off, on = [], []
    docs = dump_ast(header, hooks=False)
    translate_class(docs, "Spinlock", off)
    translate_class(docs, "RecursiveSpinlock", off)
    docs = dump_ast(header, hooks=True)
    sp = translate_class(docs, "Spinlock", on)
    rs = translate_class(docs, "RecursiveSpinlock", on)
    on += hooked_flag_decls(dump_ast(header, hooks=True, filt="HookedFlag"))
    return ("(* GENERATED by translate/gen_spin.py from primitiv/core/spinlock.h -- do not edit.\n"
            "   Regenerated on every run of ./check C19.  decls: plain build; decls_hooks / prog_hooks: the\n"
            "   -DPRIMITIV_VERIF_HOOKS build every harness links (calls of the scheduling hook erased). *)\n"
            "From Coq Require Import List String.\nFrom PV Require Import Spin.Lang.\nImport ListNotations.\nLocal Open Scope string_scope.\n\n"
            "Definition decls : list string :=\n  %s.\n\nDefinition decls_hooks : list string :=\n  %s.\n\n"
            "Definition gen_spin_hooks : cls :=\n  %s.\n\nDefinition gen_rspin_hooks : cls :=\n  %s.\n\n"
            "Definition prog_hooks : Lang.prog := {| spin_cls := gen_spin_hooks; rspin_cls := gen_rspin_hooks |}.\n"
            % (coq_strings(off), coq_strings(on), render(sp), render(rs)))


def write_if_changed(path, text):
    os.makedirs(os.path.dirname(path), exist_ok=True)
    old = open(path).read() if os.path.exists(path) else None
    if old != text:      # keep the timestamp when nothing changed (no needless recompilation)
        tmp = "%s.tmp.%d" % (path, os.getpid())
        with open(tmp, "w") as f:
            f.write(text)
        os.replace(tmp, path)


UNTRANSLATABLE_DECLS = ("(* GENERATED by translate/gen_spin.py -- the declarations / the hooks-on variant could not be read: %s *)\n"
                        "From Coq Require Import List String.\nFrom PV Require Import Spin.Lang.\nImport ListNotations.\n\n"
                        "Definition decls : list string := [].\nDefinition decls_hooks : list string := [].\n"
                        "Definition prog_hooks : Lang.prog := {| spin_cls := {| try_lock_body := []; lock_body := []; unlock_body := [] |};\n"
                        "                                        rspin_cls := {| try_lock_body := []; lock_body := []; unlock_body := [] |} |}.\n")


def main():
    write_if_changed(OUT, generate())
    try:
        write_if_changed(OUT_DECLS, generate_decls())
    except TranslateError as e:
        # never leave a stale file behind: the obligations of Spin/GenMatchesDecls.v then fail
        write_if_changed(OUT_DECLS, UNTRANSLATABLE_DECLS % str(e).replace("*)", "* )")[:500])
        raise
    return OUT


if __name__ == "__main__":
    try:
        print(main())
    except TranslateError as e:
        print("gen_spin: " + str(e), file=sys.stderr)
        sys.exit(1)
