// Stub of the cmake-generated primitiv/config.h used ONLY by the translators (g++ -E):
// no optional feature is defined; translate/gen_optables.py passes -DPRIMITIV_USE_CACHE itself
// when it reads the cache variant.
#ifndef PRIMITIV_CONFIG_H_
#define PRIMITIV_CONFIG_H_
#endif
