(* Reads one shape call per line, evaluates the extracted Coq model, prints one canonical
   result per line.  Same case file and same output format as harness/shape_drv.cc. *)
exception Argerr
let shape_of_string s =
  match String.split_on_char ':' s with
  | [ds; b] -> (match M.mk_shape (nlist_of_string ds) (n_of_string b) with
                | Some sh -> sh | None -> raise Argerr)
  | _ -> failwith ("bad shape " ^ s)
let shapes_of_string s = List.map shape_of_string (split_on ';' s)
let pr_shape = function
  | None -> "err"
  | Some sh -> Printf.sprintf "ok %s:%s v=%s" (string_of_nlist sh.M.dims)
                 (string_of_n sh.M.batch) (string_of_n sh.M.volume)
let pr_bool b = if b then "b 1" else "b 0"
let pr_n n = "n " ^ string_of_n n
let n = n_of_string
let sh = shape_of_string
let eval toks =
  match toks with
  | ["mk"; ds; b] -> pr_shape (M.mk_shape (nlist_of_string ds) (n b))
  | ["get"; s; i] -> pr_n (M.get (sh s) (n i))
  | ["depth"; s] -> pr_n (M.depth (sh s))
  | ["volume"; s] -> pr_n ((sh s).M.volume)
  | ["lower_volume"; s; d] -> pr_n (M.lower_volume (sh s) (n d))
  | ["size"; s] -> pr_n (M.size (sh s))
  | ["has_batch"; s] -> pr_bool (M.has_batch (sh s))
  | ["compat"; a; b] -> pr_bool (M.has_compatible_batch (sh a) (sh b))
  | ["is_scalar"; s] -> pr_bool (M.is_scalar (sh s))
  | ["is_column_vector"; s] -> pr_bool (M.is_column_vector (sh s))
  | ["is_matrix"; s] -> pr_bool (M.is_matrix (sh s))
  | ["same_dims"; a; b] -> pr_bool (M.has_same_dims (sh a) (sh b))
  | ["eq"; a; b] -> pr_bool (M.shape_eqb (sh a) (sh b))
  | ["loo"; a; b; d] -> pr_bool (M.has_same_loo_dims (sh a) (sh b) (n d))
  | ["resize_dim"; s; d; m] -> pr_shape (M.update_dim (sh s) (n d) (n m))
  | ["resize_batch"; s; b] -> pr_shape (M.update_batch (sh s) (n b))
  | ["reshape"; a; b] -> pr_shape (M.reshape (sh a) (sh b))
  | ["flatten"; a] -> pr_shape (M.flatten (sh a))
  | ["scalar_op"; a; b] -> pr_shape (M.scalar_op (sh a) (sh b))
  | ["elementwise"; a; b] -> pr_shape (M.elementwise (sh a) (sh b))
  | ["slice"; a; d; l; u] -> pr_shape (M.slice (sh a) (n d) (n l) (n u))
  | ["concat"; xs; d] -> pr_shape (M.concat (shapes_of_string xs) (n d))
  | ["broadcast"; a; d; s] -> pr_shape (M.broadcast (sh a) (n d) (n s))
  | ["pick"; a; ids; d] -> pr_shape (M.pick (sh a) (nlist_of_string ids) (n d))
  | ["transpose"; a] -> pr_shape (M.transpose (sh a))
  | ["permute_dims"; a; p] -> pr_shape (M.permute_dims (sh a) (nlist_of_string p))
  | ["matmul"; a; b] -> pr_shape (M.matmul (sh a) (sh b))
  | ["conv2d"; x; w; p0; p1; s0; s1; d0; d1] ->
      pr_shape (M.conv2d (sh x) (sh w) (n p0) (n p1) (n s0) (n s1) (n d0) (n d1))
  | ["pool2d"; x; w0; w1; p0; p1; s0; s1] ->
      pr_shape (M.pool2d (sh x) (n w0) (n w1) (n p0) (n p1) (n s0) (n s1))
  | ["batch_pick"; a; ids] -> pr_shape (M.batch_pick (sh a) (nlist_of_string ids))
  | ["batch_slice"; a; l; u] -> pr_shape (M.batch_slice (sh a) (n l) (n u))
  | ["batch_concat"; xs] -> pr_shape (M.batch_concat (shapes_of_string xs))
  | ["split"; a; d; k] -> pr_shape (M.split (sh a) (n d) (n k))
  | ["batch_split"; a; k] -> pr_shape (M.batch_split (sh a) (n k))
  | ["sce"; a; b; d] -> pr_shape (M.sce (sh a) (sh b) (n d))
  | ["reduce"; a; d] -> pr_shape (M.reduce (sh a) (n d))
  | ["identity"; s] -> pr_shape (M.identity (n s))
  | ["batch_sum"; a] -> pr_shape (M.batch_sum (sh a))
  | _ -> "badcase"
let () =
  iter_lines (fun line ->
    let toks = List.filter (fun s -> s <> "") (String.split_on_char ' ' line) in
    print_endline (try eval toks with Argerr -> "argerr"))
