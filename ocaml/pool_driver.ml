(* Reads one case per line, evaluates the extracted Coq model of MemoryPool, prints one
   canonical result line per case.  Same case file and output format as harness/pool_drv.cc.
     S <x>                      calculate_shifts x
     H <base> <op>;<op>;...     a history; ops:  c <min> | a <pool#> <size> <c1><c2> [n]
                                | d <alloc#> | x <pool#>      (pool#/alloc# are line-local)
   <base> = number of pools created by earlier lines of the same file (the C++ id counter is
   a process-wide static); every line ends with an implicit clean-up (destroy the remaining
   pools in creation order, then drop the remaining handles), printed as the `end` item. *)
let n = n_of_string
let ev_str = function
  | M.EvAlloc (pid, sz, None) -> Printf.sprintf "A%s:%s:F" (string_of_n pid) (string_of_n sz)
  | M.EvAlloc (pid, sz, Some p) -> Printf.sprintf "A%s:%s:%s" (string_of_n pid) (string_of_n sz) (string_of_n p)
  | M.EvDelete (pid, p) -> Printf.sprintf "D%s:%s" (string_of_n pid) (string_of_n p)
let evs ?(sorted=false) before after =
  let l = List.map ev_str (M.new_events before after) in
  let l = if sorted then List.sort compare l else l in
  "[" ^ String.concat "," l ^ "]"
let choice_of = function 'F' -> M.CFail | 'N' -> M.CNew | 'R' -> M.CReuse | _ -> failwith "choice"
let history base ops =
  let w = ref (M.init_world (n base)) in
  let pools = ref [] (* line-local index -> id, reversed *) and npools = ref 0 in
  let allocs = ref [] (* alloc# -> (pid, p) option, reversed *) and nallocs = ref 0 in
  let dropped = Hashtbl.create 16 in
  let out = Buffer.create 256 in
  let add s = if Buffer.length out > 0 then Buffer.add_char out ';'; Buffer.add_string out s in
  let do_step o = let (w', r) = M.step !w o in let before = (!w).M.elog in w := w'; (before, r) in
  let drop k =
    if k >= !nallocs || Hashtbl.mem dropped k then "skip" else
    match List.nth !allocs (!nallocs - 1 - k) with
    | None -> "skip"
    | Some (pid, p) ->
        Hashtbl.replace dropped k ();
        let (before, r) = do_step (M.Drop (pid, p)) in
        (match r with M.ODropped -> "d" ^ evs before (!w).M.elog | _ -> "model-skip") in
  let destroy k =
    if k >= !npools then "skip" else
    let pid = List.nth !pools (!npools - 1 - k) in
    let (before, r) = do_step (M.Destroy pid) in
    (match r with M.ODestroyed -> "x" ^ evs ~sorted:true before (!w).M.elog | _ -> "skip") in
  List.iter (fun opstr ->
    let toks = List.filter (fun s -> s <> "") (String.split_on_char ' ' opstr) in
    match toks with
    | ["c"; mn] ->
        let (_, r) = do_step (M.Create (n mn)) in
        (match r with
         | M.OCreated id -> pools := id :: !pools; incr npools; add ("c" ^ string_of_n id)
         | _ -> add "skip")
    | "a" :: pi :: sz :: cs :: rest ->
        let noasz = (rest = ["n"]) in
        let k = int_of_string pi in
        let res =
          if k >= !npools then (allocs := None :: !allocs; "skip") else begin
            let pid = List.nth !pools (!npools - 1 - k) in
            let before = (!w).M.elog in
            let (w', r) = M.step_alloc_choice !w pid (n sz) (choice_of cs.[0]) (choice_of cs.[1]) in
            w := w';
            let a s = if noasz then "na" else string_of_n s in
            match r with
            | M.OAlloc (M.AOk p, asz) -> allocs := Some (pid, p) :: !allocs;
                Printf.sprintf "ok:%s:%s%s" (string_of_n p) (a asz) (evs before w'.M.elog)
            | M.OAlloc (M.ANull, asz) -> allocs := None :: !allocs; Printf.sprintf "null:%s%s" (a asz) (evs before w'.M.elog)
            | M.OAlloc (M.AErr, asz) -> allocs := None :: !allocs; Printf.sprintf "err:%s%s" (a asz) (evs before w'.M.elog)
            | M.OAlloc (M.AFail, asz) -> allocs := None :: !allocs; Printf.sprintf "fail:%s%s" (a asz) (evs before w'.M.elog)
            | _ -> allocs := None :: !allocs; "skip"
          end in
        incr nallocs; add res
    | ["d"; k] -> add (drop (int_of_string k))
    | ["x"; k] -> add (destroy (int_of_string k))
    | [] -> ()
    | _ -> add "badop") ops;
  (* implicit clean-up *)
  let parts = ref [] in
  for k = 0 to !npools - 1 do
    let s = destroy k in if s <> "skip" then parts := s :: !parts
  done;
  for k = 0 to !nallocs - 1 do
    let s = drop k in if s <> "skip" && s <> "d[]" then parts := s :: !parts
  done;
  add ("end" ^ String.concat "|" (List.rev !parts));
  (* the allocator used here must itself satisfy the contract the theorems assume, and the
     model must have honoured the deleter's contract; all pools are gone: nothing outstanding *)
  if not (M.log_okb (!w).M.elog) then add "ALLOCATOR-CONTRACT-BROKEN";
  if not (M.del_okb (!w).M.elog) then add "DELETER-CONTRACT-BROKEN";
  if M.live_of (!w).M.elog <> [] then add "LEAK";
  Buffer.contents out
let () =
  iter_lines (fun line ->
    let line = String.trim line in
    if line = "" then print_endline "" else
    match line.[0] with
    | 'S' -> print_endline ("s " ^ string_of_n (M.calculate_shifts (n (String.trim (String.sub line 1 (String.length line - 1))))))
    | 'H' ->
        let rest = String.trim (String.sub line 1 (String.length line - 1)) in
        let i = String.index rest ' ' in
        let base = String.sub rest 0 i and ops = String.sub rest (i + 1) (String.length rest - i - 1) in
        print_endline (history base (String.split_on_char ';' ops))
    | _ -> print_endline "badcase")
