(* C07 correspondence driver, model side: runs the same histories as harness/cow_drv.cc on the
   extracted Coq model (Cow/Heap.v) and prints the same observation lines.
   Parameter / optimizer / graph lines are expanded into the model's primitive Tensor
   operations in the order the C++ performs them (see the comments at each expansion). *)
let z_of_int (i : int) : M.z =
  if i = 0 then M.Z0 else if i > 0 then M.Zpos (pos_of_z (Z.of_int i)) else M.Zneg (pos_of_z (Z.of_int (- i)))
let string_of_mz = function
  | M.Z0 -> "0" | M.Zpos p -> Z.to_string (z_of_pos p) | M.Zneg p -> "-" ^ Z.to_string (z_of_pos p)
let zlist s = List.map (fun t -> z_of_int (int_of_string t)) (split_on ',' s)
let fmtv l = String.concat "," (List.map string_of_mz l)
let fmts (sh : M.shape) =
  (match sh.M.dims with [] -> "s" | ds -> String.concat "x" (List.map string_of_n ds))
  ^ "." ^ string_of_n sh.M.batch
let nm = nat_of_int

let nt = 8 and np = 2
let nvis = nt + 3 * np
let tmp = 15
let slot n = 16 + n

type kind = KP of int | KRs of int * M.n list * M.n | KFl of int | KPos of int
type world = {
  mutable st : M.state;
  pshape : M.shape option array;
  nodes : (int, kind * M.shape) Hashtbl.t;
}
exception Skip
exception Err

let exists w x = match M.var w.st (nm x) with Some _ -> true | None -> false
let can_target w x = (x >= 0 && x < nt) || exists w x
let need w x = if x < 0 || not (exists w x) then raise Skip

(* one model operation; Error -> exception Err (the state after the throw is kept) *)
let step w (o : M.op) : M.out =
  let (r, s') = M.step o w.st in
  w.st <- s';
  match r with Some out -> out | None -> raise Err

let pr_out = function
  | M.OUnit -> "ok" | M.OSkip -> "skip"
  | M.OShapeV sh -> "S:" ^ fmts sh
  | M.ODevV d -> "D:" ^ string_of_int (int_of_nat d)
  | M.OVec l -> "V:" ^ fmtv l
  | M.OVal v -> "F:" ^ string_of_mz v
  | M.OBool b -> "B:" ^ (if b then "1" else "0")

let observe w =
  let b = Buffer.create 256 in
  let classes = ref [] in
  for x = 0 to nvis - 1 do
    Buffer.add_char b ' ';
    match M.observe w.st (nm x) with
    | None -> Buffer.add_char b '-'
    | Some None -> Buffer.add_char b '!'
    | Some (Some (((d, sh), i), vals)) ->
        let i = int_of_nat i in
        let k = (match List.assoc_opt i !classes with
                 | Some k -> k
                 | None -> let k = List.length !classes in classes := (i, k) :: !classes; k) in
        Buffer.add_string b (Printf.sprintf "%d.%s.c%d:%s" (int_of_nat d) (fmts sh) k (fmtv vals))
  done;
  Buffer.add_string b (Printf.sprintf " live=%d" (int_of_nat (M.live_count w.st)));
  Buffer.contents b

let dev s = let d = int_of_string s in if d < 0 || d > 1 then raise Skip else nm d
let param w s = let p = int_of_string s in
  if p < 0 || p >= np || w.pshape.(p) = None then raise Skip else p
let pval p = nt + 3 * p and pgrad p = nt + 3 * p + 1 and pstat p = nt + 3 * p + 2
let mk ds b = match M.mk_shape ds b with Some sh -> sh | None -> raise Err

(* Graph::forward: lazily computes the value slot of node n, returns the name that holds it *)
let rec ensure w n : int =
  let (k, _) = Hashtbl.find w.nodes n in
  match k with
  | KP p -> pval p                               (* has_inner_values(): &param_.value() *)
  | _ ->
    let valid = (match M.var w.st (nm (slot n)) with Some (M.Hd (_, _, _)) -> true | _ -> false) in
    if not valid then begin                      (* !cur_n.value.valid() *)
      match k with
      | KRs (m, ds, b) -> let src = ensure w m in   (* y[0] = functions::reshape(x[0], shape_) *)
          ignore (step w (M.Reshape (nm (slot n), nm src, ds, b)))
      | KFl m -> let src = ensure w m in            (* y[0] = functions::flatten(x[0]) *)
          ignore (step w (M.Flatten (nm (slot n), nm src)))
      | KPos m -> let src = ensure w m in           (* y[0] = x[0], copy assignment *)
          ignore (step w (M.Copy (nm (slot n), nm src)))
      | KP _ -> ()
    end;
    slot n

let fresh_node w s = let n = int_of_string s in
  if n < 0 || n >= 8 || Hashtbl.mem w.nodes n then raise Skip else n
let need_node w s = let n = int_of_string s in
  if Hashtbl.mem w.nodes n then n else raise Skip

let clear_graph w =
  Hashtbl.iter (fun n (k, _) -> match k with KP _ -> () | _ -> ignore (step w (M.Destroy (nm (slot n))))) w.nodes;
  Hashtbl.reset w.nodes

let exec w (t : string list) : string =
  let i = int_of_string in
  let tgt s = let x = i s in if not (can_target w x) then raise Skip else x in
  let src s = let y = i s in need w y; y in
  let prim o = pr_out (step w o) in
  match t with
  | ["def"; x] -> let x = i x in if x >= nt || exists w x then raise Skip; prim (M.Default (nm x))
  | ["new"; x; d; ds; b; vals] -> let x = tgt x in let d = dev d in
      prim (M.NewVec (nm x, d, nlist_of_string ds, n_of_string b, zlist vals))
  | ["cp"; x; y] -> let y = src y in let x = tgt x in prim (M.Copy (nm x, nm y))
  | ["mv"; x; y] -> let y = src y in let x = tgt x in prim (M.Move (nm x, nm y))
  | ["rs"; x; y; ds; b] -> let y = src y in let x = tgt x in
      prim (M.Reshape (nm x, nm y, nlist_of_string ds, n_of_string b))
  | ["fl"; x; y] -> let y = src y in let x = tgt x in prim (M.Flatten (nm x, nm y))
  | ["cd"; x; y; d] -> let y = src y in let x = tgt x in let d = dev d in prim (M.CopyDev (nm x, nm y, d))
  | ["add"; x; y; z] -> let y = src y in let z = src z in let x = tgt x in prim (M.AddNew (nm x, nm y, nm z))
  | ["mulc"; x; y; k] -> let y = src y in let x = tgt x in prim (M.MulCNew (nm x, nm y, z_of_int (i k)))
  | ["iadd"; x; y] -> let x = src x in let y = src y in prim (M.IAdd (nm x, nm y))
  | ["isub"; x; y] -> let x = src x in let y = src y in prim (M.ISub (nm x, nm y))
  | ["imul"; x; k] -> let x = src x in prim (M.IMulC (nm x, z_of_int (i k)))
  | ["reset"; x; k] -> let x = src x in prim (M.Reset (nm x, z_of_int (i k)))
  | ["resetv"; x; vals] -> let x = src x in prim (M.ResetVec (nm x, zlist vals))
  | ["inval"; x] -> let x = src x in prim (M.Invalidate (nm x))
  | ["del"; x] -> let x = i x in if x >= nt || not (exists w x) then raise Skip; prim (M.Destroy (nm x))
  | ["shape"; x] -> let x = src x in prim (M.GetShape (nm x))
  | ["dev"; x] -> let x = src x in prim (M.GetDevice (nm x))
  | ["vec"; x] -> let x = src x in prim (M.ToVector (nm x))
  | ["flt"; x] -> let x = src x in prim (M.ToFloat (nm x))
  | ["valid"; x] -> let x = src x in prim (M.IsValid (nm x))
  (* Parameter(shape, values, device): value_ = input(..); grad_ = zeros(..); then
     add_stats(name, shape): zeros(..) *)
  | ["pnew"; p; d; ds; b; vals] ->
      let p = i p in if p < 0 || p >= np || w.pshape.(p) <> None then raise Skip;
      let d = dev d in
      let ds = nlist_of_string ds and b = n_of_string b in
      let sh = mk ds b in
      let zeros = List.init (int_of_nat (M.nsize sh)) (fun _ -> M.Z0) in
      ignore (step w (M.NewVec (nm (pval p), d, ds, b, zlist vals)));
      ignore (step w (M.NewVec (nm (pgrad p), d, ds, b, zeros)));
      (* assert_shape(value_, grad_): a minibatched shape is rejected; unwinding destroys
         grad_ then value_ *)
      if M.has_batch sh then begin
        ignore (step w (M.Destroy (nm (pgrad p)))); ignore (step w (M.Destroy (nm (pval p)))); raise Err
      end;
      ignore (step w (M.NewVec (nm (pstat p), d, ds, b, zeros)));
      w.pshape.(p) <- Some sh; "ok"
  (* SGD::update_parameter: param.value() -= (scale * eta_) * param.gradient(); *)
  | ["sgd"; p; k] -> let p = param w p in
      ignore (step w (M.MulCNew (nm tmp, nm (pgrad p), z_of_int (i k))));
      let r = (try ignore (step w (M.ISub (nm (pval p), nm tmp))); true with Err -> false) in
      ignore (step w (M.Destroy (nm tmp)));
      if r then "ok" else raise Err
  (* MomentumSGD::update_parameter: m *= momentum_; m -= (scale * eta_) * g; value += m; *)
  | ["mom"; p; k; mo] -> let p = param w p in
      ignore (step w (M.IMulC (nm (pstat p), z_of_int (i mo))));
      ignore (step w (M.MulCNew (nm tmp, nm (pgrad p), z_of_int (i k))));
      let r = (try ignore (step w (M.ISub (nm (pstat p), nm tmp))); true with Err -> false) in
      ignore (step w (M.Destroy (nm tmp)));
      if not r then raise Err;
      ignore (step w (M.IAdd (nm (pval p), nm (pstat p)))); "ok"
  | ["rg"; p] -> let p = param w p in ignore (step w (M.Reset (nm (pgrad p), M.Z0))); "ok"
  (* Tensor parameter_tensor(Parameter &param) { return param.value(); } moved into x *)
  | ["pv"; x; p] -> let p = param w p in let x = tgt x in prim (M.Copy (nm x, nm (pval p)))
  (* graph *)
  | ["gp"; n; p] -> let n = fresh_node w n in let p = param w p in
      (match w.pshape.(p) with Some sh -> Hashtbl.replace w.nodes n (KP p, sh) | None -> raise Skip); "ok"
  | ["grs"; n; m; ds; b] -> let n = fresh_node w n in let m = need_node w m in
      let ds = nlist_of_string ds and b = n_of_string b in
      let shn = mk ds b in
      let (_, sm) = Hashtbl.find w.nodes m in
      (match M.reshape sm shn with
       | None -> raise Err
       | Some sh -> Hashtbl.replace w.nodes n (KRs (m, ds, b), sh); ignore (step w (M.Default (nm (slot n)))); "ok")
  | ["gfl"; n; m] -> let n = fresh_node w n in let m = need_node w m in
      let (_, sm) = Hashtbl.find w.nodes m in
      (match M.flatten sm with
       | None -> raise Err
       | Some sh -> Hashtbl.replace w.nodes n (KFl m, sh); ignore (step w (M.Default (nm (slot n)))); "ok")
  | ["gpos"; n; m] -> let n = fresh_node w n in let m = need_node w m in
      let (_, sm) = Hashtbl.find w.nodes m in
      Hashtbl.replace w.nodes n (KPos m, sm); ignore (step w (M.Default (nm (slot n)))); "ok"
  | ["gread"; x; n] -> let n = need_node w n in let x = tgt x in
      let s = ensure w n in prim (M.Copy (nm x, nm s))
  | ["gvec"; n] -> let n = need_node w n in let s = ensure w n in prim (M.ToVector (nm s))
  | ["gclear"] -> clear_graph w; "ok"
  | _ -> raise Skip

let run_history line =
  let w = { st = M.empty_store; pshape = Array.make np None; nodes = Hashtbl.create 8 } in
  let out = Buffer.create 1024 in
  List.iter (fun opstr ->
      let t = List.filter (fun s -> s <> "") (String.split_on_char ' ' opstr) in
      if t <> [] then begin
        let r = (try exec w t with Skip -> "skip" | Err -> "err") in
        if Buffer.length out > 0 then Buffer.add_char out '|';
        Buffer.add_string out r; Buffer.add_string out (observe w)
      end)
    (String.split_on_char ';' line);
  clear_graph w;
  for x = nvis - 1 downto 0 do
    if exists w x then ignore (step w (M.Destroy (nm x)))
  done;
  if Buffer.length out > 0 then Buffer.add_char out '|';
  Buffer.add_string out (Printf.sprintf "end live=%d" (int_of_nat (M.live_count w.st)));
  Buffer.contents out

let () = iter_lines (fun line -> print_endline (run_history line))
