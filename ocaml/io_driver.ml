(* Reads one io case per line, evaluates the extracted Coq model (Msgpack/Codec.v,
   Generic.v, FileFormat.v), prints one canonical result per line.  Same case file and the
   same output format as harness/io_drv.cc (see there for the text formats).  Two commands
   exist only here: `chk` (cross-check of bytes written by the C++ side) and `enc`. *)
exception Err
let byte_tab = Array.init 256 (fun i -> n_of_z (Z.of_int i))
let int_of_n n = Z.to_int (z_of_n n)
let n_of_int i = if i >= 0 && i < 256 then byte_tab.(i) else n_of_z (Z.of_int i)
let hexv c = if c <= '9' then Char.code c - 48 else Char.code c - 87
let unhex (h : string) : M.n list =
  if h = "-" || h = "" then [] else begin
    let n = String.length h / 2 in
    let rec go i acc = if i < 0 then acc else go (i - 1) (byte_tab.(hexv h.[2*i] * 16 + hexv h.[2*i+1]) :: acc) in
    go (n - 1) [] end
let hex (b : M.n list) : string =
  if b = [] then "-" else begin
    let buf = Buffer.create 64 in
    List.iter (fun x -> Buffer.add_string buf (Printf.sprintf "%02x" (int_of_n x land 0xffff))) b;
    Buffer.contents buf end
let nums s = nlist_of_string s
let join_nums l = if l = [] then "-" else string_of_nlist l
let mz_of_z (z : Z.t) : M.z =
  if Z.sign z = 0 then M.Z0 else if Z.sign z > 0 then M.Zpos (pos_of_z z) else M.Zneg (pos_of_z (Z.neg z))
let z_of_mz = function M.Z0 -> Z.zero | M.Zpos p -> z_of_pos p | M.Zneg p -> Z.neg (z_of_pos p)
let fnv (s : string) : string =
  let h = ref 0xcbf29ce484222325L in
  String.iter (fun c -> h := Int64.mul (Int64.logxor !h (Int64.of_int (Char.code c))) 0x100000001b3L) s;
  Printf.sprintf "%Lx" !h
let rec take_list n l = if n = 0 then [] else match l with [] -> [] | x :: r -> x :: take_list (n - 1) r
let toks line = List.filter (fun s -> s <> "") (String.split_on_char ' ' line)

(* ---------------- objects from descriptions ---------------- *)
let tdesc s : M.tensor =
  match String.split_on_char '/' s with
  | [ds; b; ws] ->
      (match M.mk_shape (nums ds) (n_of_string b) with
       | Some sh -> { M.tshape = sh; M.twords = nums ws }
       | None -> raise Err)
  | _ -> failwith ("bad tensor " ^ s)
let invalid_param : M.param =
  let sh = { M.dims = []; M.batch = M.N0; M.volume = M.N0 } in
  let t = { M.tshape = sh; M.twords = [] } in
  { M.p_valid = false; M.p_shape = sh; M.p_value = t; M.p_grad = t; M.p_stats = [] }
let pdesc s : M.param =
  if s = "!" then invalid_param else
  match String.split_on_char '|' s with
  | [v; g; st] ->
      let v = tdesc v in
      (* Parameter::init rejects a batched shape *)
      if M.has_batch v.M.tshape then raise Err;
      let g = if g = "-" then M.zeros v.M.tshape else { M.tshape = v.M.tshape; M.twords = nums g } in
      let stats = List.map (fun kv -> let e = String.index kv '=' in
                     (unhex (String.sub kv 0 e), tdesc (String.sub kv (e + 1) (String.length kv - e - 1))))
                    (split_on ';' st) in
      (* stats_.emplace: the first entry of a name is kept *)
      { M.p_valid = true; M.p_shape = v.M.tshape; M.p_value = v; M.p_grad = g;
        M.p_stats = M.dedup_first M.bytes_eqb stats }
  | _ -> failwith ("bad param " ^ s)
let rec parse_model (t : string list) : M.model * string list =
  match t with
  | "[" :: r ->
      let rec items ps subs r =
        match r with
        | "]" :: r' -> (M.Model (List.rev ps, List.rev subs), r')
        | "p" :: name :: p :: r' -> items ((unhex name, pdesc p) :: ps) subs r'
        | "m" :: name :: r' -> let (m, r'') = parse_model r' in items ps ((unhex name, m) :: subs) r''
        | _ -> failwith "model: bad item" in
      items [] [] r
  | _ -> failwith "model: expected ["
let odesc s : M.optim =
  match String.split_on_char ':' s with
  | [k; e; lr; l2; c; hp] ->
      let kind = n_of_string k in
      let names = M.hp_names kind in
      let hp = nums hp in
      let rec pad l n = if n = 0 then [] else match l with [] -> M.N0 :: pad [] (n - 1) | x :: r -> x :: pad r (n - 1) in
      { M.o_kind = kind; M.o_epoch = n_of_string e; M.o_lr_scale = n_of_string lr; M.o_l2 = n_of_string l2;
        M.o_clip = n_of_string c; M.o_hp = pad hp (List.length names) }
  | _ -> failwith ("bad optimizer " ^ s)

(* ---------------- canonical dumps ---------------- *)
let sdump (s : M.shape) = join_nums s.M.dims ^ "/" ^ string_of_n s.M.batch
let tdump (t : M.tensor) = sdump t.M.tshape ^ "/" ^ join_nums t.M.twords
let pdump (p : M.param) =
  if not p.M.p_valid then "!" else
  let st = List.sort compare (List.map (fun (k, t) -> hex k ^ "=" ^ tdump t) p.M.p_stats) in
  "S=" ^ sdump p.M.p_shape ^ ";V=" ^ tdump p.M.p_value ^ ";G=" ^ tdump p.M.p_grad ^ ";ST=" ^
  (if st = [] then "-" else String.concat ";" st)
let pathhex k = String.concat "." (List.map hex k)
let mdumps (es : (M.bytes list * M.param) list) = List.map (fun (k, p) -> pathhex k ^ "=" ^ pdump p) es
let odump (o : M.optim) =
  let e = List.map (fun (k, v) -> hex k ^ "=u" ^ string_of_n v) (M.uint_configs o)
        @ List.map (fun (k, v) -> hex k ^ "=f" ^ string_of_n v) (M.float_configs o) in
  String.concat ";" (List.sort compare e)
let joinv v sep = if v = [] then "-" else String.concat sep v

(* ---------------- an object of any kind ---------------- *)
type obj = P of bool * M.param | Md of bool * (M.bytes list * M.param) list | O of M.optim
let mk_obj (t : string list) : obj * string list =
  match t with
  | "p" :: ws :: d :: r -> (P (ws = "1", pdesc d), r)
  | "m" :: ws :: r -> let (m, r') = parse_model r in (Md (ws = "1", M.model_entries m), r')
  | "o" :: d :: r -> (O (odesc d), r)
  | _ -> failwith "bad kind"
let dumps = function P (_, p) -> [pdump p] | Md (_, es) -> mdumps es | O o -> [odump o]
let encode = function
  | P (ws, p) -> if not p.M.p_valid then raise Err else M.enc_param_file ws p
  | Md (ws, es) -> M.enc_model_file ws es
  | O o -> M.enc_opt_file (M.uint_configs o) (M.float_configs o)
let load (o : obj) (file : M.n list) : bool * obj =
  match o with
  | P (ws, p) -> let (ok, p') = M.run_load (M.load_parameter ws) file p in (ok, P (ws, p'))
  | Md (ws, es) -> let (ok, es') = M.run_load (M.load_model ws) file es in (ok, Md (ws, es'))
  | O x -> let (ok, x') = M.run_load M.load_optimizer file x in (ok, O x')

(* ---------------- raw Writer / Reader ---------------- *)
let show_rest rest = " rest=" ^ string_of_int (List.length rest)
let rt (w : 'a -> M.n list) (r : M.n list -> ('b * M.n list) option) (sh : 'b -> string) (x : 'a) ?(hdr = 0) () =
  let b = w x in
  match r (b @ [byte_tab.(0x5a)]) with
  | None -> raise Err
  | Some (y, rest) ->
      (if hdr = 0 then hex b else "#" ^ string_of_int (List.length b) ^ ":" ^ hex (take_list hdr b)) ^ " " ^ sh y ^ show_rest rest
let map_hdr_len n = if n <= 1 then 0 else if n < 16 then 1 else if n < 65536 then 3 else 5
let sh_n = string_of_n
let sh_z z = Z.to_string (z_of_mz z)
let sh_list f l = "[" ^ String.concat "," (List.map f l) ^ "]"
let sh_map fk fv l =
  "{" ^ String.concat "," (List.sort compare (List.map (fun (k, v) -> fk k ^ ">" ^ fv v) (M.dedup_first M.bytes_eqb l))) ^ "}"
let strs s = List.map unhex (split_on ';' s)
let smap s = List.map (fun kv -> let e = String.index kv '=' in
               (unhex (String.sub kv 0 e), n_of_string (String.sub kv (e + 1) (String.length kv - e - 1)))) (split_on ';' s)
let zarg a = mz_of_z (Z.of_string a)
let be32 i = [byte_tab.((i lsr 24) land 255); byte_tab.((i lsr 16) land 255); byte_tab.((i lsr 8) land 255); byte_tab.(i land 255)]
let do_raw t =
  match t with
  | ["raw"; "nil"] -> rt (fun () -> M.w_nil) M.r_nil (fun () -> "nil") () ()
  | ["raw"; "bool"; a] -> rt M.w_bool M.r_bool (fun b -> if b then "1" else "0") (a = "1") ()
  | ["raw"; "u8"; a] -> rt M.w_u8 M.r_u8 sh_n (n_of_string a) ()
  | ["raw"; "u16"; a] -> rt M.w_u16 M.r_u16 sh_n (n_of_string a) ()
  | ["raw"; "u32"; a] -> rt M.w_u32 M.r_u32 sh_n (n_of_string a) ()
  | ["raw"; "u64"; a] -> rt M.w_u64 M.r_u64 sh_n (n_of_string a) ()
  | ["raw"; "i8"; a] -> rt M.w_i8 M.r_i8 sh_z (zarg a) ()
  | ["raw"; "i16"; a] -> rt M.w_i16 M.r_i16 sh_z (zarg a) ()
  | ["raw"; "i32"; a] -> rt M.w_i32 M.r_i32 sh_z (zarg a) ()
  | ["raw"; "i64"; a] -> rt M.w_i64 M.r_i64 sh_z (zarg a) ()
  | ["raw"; "f32"; a] -> rt M.w_f32 M.r_f32 sh_n (n_of_string a) ()
  | ["raw"; "f64"; a] -> rt M.w_f64 M.r_f64 sh_n (n_of_string a) ()
  | ["raw"; "str"; a] -> rt M.w_str M.r_str hex (unhex a) ()
  | ["raw"; "str"] -> rt M.w_str M.r_str hex [] ()
  | ["raw"; "bin"; a] -> rt M.w_bin M.r_bin hex (unhex a) ()
  | ["raw"; "ext"; ty; a] -> rt M.w_ext M.r_ext (fun (ty, d) -> sh_z ty ^ ":" ^ hex d) (zarg ty, unhex a) ()
  | ["raw"; "vu32"; a] -> rt (M.w_vec M.w_u32) (M.r_vec M.r_u32) (sh_list sh_n) (nums a) ()
  | ["raw"; "vu8"; a] -> rt (M.w_vec M.w_u8) (M.r_vec M.r_u8) (sh_list sh_n) (nums a) ()
  | ["raw"; "vstr"; a] -> rt (M.w_vec M.w_str) (M.r_vec M.r_str) (sh_list hex) (strs a) ()
  | ["raw"; "vvstr"; a] -> rt (M.w_vec (M.w_vec M.w_str)) (M.r_vec (M.r_vec M.r_str)) (sh_list (sh_list hex))
                             (List.map strs (split_on '|' a)) ()
  | ["raw"; "mu32"; a] -> let x = M.dedup_first M.bytes_eqb (smap a) in
      rt (M.w_map M.w_str M.w_u32) (M.r_map M.r_str M.r_u32) (sh_map hex sh_n) x ~hdr:(map_hdr_len (List.length x)) ()
  | ["raw"; "mf32"; a] -> let x = M.dedup_first M.bytes_eqb (smap a) in
      rt (M.w_map M.w_str M.w_f32) (M.r_map M.r_str M.r_f32) (sh_map hex sh_n) x ~hdr:(map_hdr_len (List.length x)) ()
  | ["raw"; "vu32n"; a] ->
      let n = int_of_string a in
      let x = List.init n (fun i -> n_of_z (Z.of_int ((i * 2654435761) land 0xffffffff))) in
      let b = M.w_vec M.w_u32 x in
      (match M.r_vec M.r_u32 (b @ [byte_tab.(0x5a)]) with
       | None -> raise Err
       | Some (y, rest) -> "#" ^ string_of_int (List.length b) ^ ":" ^ hex (take_list 6 b) ^ " fnv=" ^
           fnv (String.concat "" (List.map (fun c -> String.make 1 (Char.chr (int_of_n c))) b)) ^
           " same=" ^ (if x = y then "1" else "0") ^ show_rest rest)
  | ["raw"; "mu32n"; a] ->
      let n = int_of_string a in
      let x = List.init n (fun i -> (be32 i, n_of_z (Z.of_int ((i * 2654435761) land 0xffffffff)))) in
      let b = M.w_map M.w_str M.w_u32 x in
      (match M.r_map M.r_str M.r_u32 (b @ [byte_tab.(0x5a)]) with
       | None -> raise Err
       | Some (y, rest) -> "#" ^ string_of_int (List.length b) ^ ":" ^
           hex (take_list (if n < 16 then 1 else if n < 65536 then 3 else 5) b) ^
           " same=" ^ (if x = y then "1" else "0") ^ show_rest rest)
  | _ -> "badcase"
let rd r sh b = match r b with None -> raise Err | Some (y, rest) -> sh y ^ show_rest rest
let do_rawrd t =
  match t with
  | ["rawrd"; ty; h] ->
      let b = unhex h in
      (match ty with
       | "nil" -> rd M.r_nil (fun () -> "nil") b
       | "bool" -> rd M.r_bool (fun x -> if x then "1" else "0") b
       | "u8" -> rd M.r_u8 sh_n b | "u16" -> rd M.r_u16 sh_n b | "u32" -> rd M.r_u32 sh_n b | "u64" -> rd M.r_u64 sh_n b
       | "i8" -> rd M.r_i8 sh_z b | "i16" -> rd M.r_i16 sh_z b | "i32" -> rd M.r_i32 sh_z b | "i64" -> rd M.r_i64 sh_z b
       | "f32" -> rd M.r_f32 sh_n b | "f64" -> rd M.r_f64 sh_n b
       | "str" -> rd M.r_str hex b | "bin" -> rd M.r_bin hex b
       | "ext" -> rd M.r_ext (fun (ty, d) -> sh_z ty ^ ":" ^ hex d) b
       | "vu32" -> rd (M.r_vec M.r_u32) (sh_list sh_n) b
       | "vu8" -> rd (M.r_vec M.r_u8) (sh_list sh_n) b
       | "vstr" -> rd (M.r_vec M.r_str) (sh_list hex) b
       | "vvstr" -> rd (M.r_vec (M.r_vec M.r_str)) (sh_list (sh_list hex)) b
       | "mu32" -> rd (M.r_map M.r_str M.r_u32) (sh_map hex sh_n) b
       | "mf32" -> rd (M.r_map M.r_str M.r_f32) (sh_map hex sh_n) b
       | _ -> "badcase")
  | _ -> "badcase"

(* ---------------- commands shared with the C++ driver ---------------- *)
let do_save t = let (o, _) = mk_obj (List.tl t) in hex (encode o)
let do_load t =
  let (o, r) = mk_obj (List.tl t) in
  match r with
  | [h] -> let (ok, o') = load o (unhex h) in (if ok then "ok " else "err ") ^ joinv (dumps o') " & "
  | _ -> "badcase"
let classify now old rf =
  let rec go now old rf =
    match now with
    | [] -> ""
    | x :: now' ->
        let (o, old') = (match old with a :: r -> (Some a, r) | [] -> (None, [])) in
        let (n, rf') = (match rf with a :: r -> (Some a, r) | [] -> (None, [])) in
        (if o = Some x then "o" else if n = Some x then "n" else "x" ^ fnv x ^ ".") ^ go now' old' rf' in
  go now old rf
let do_dmg t =
  let (o, r) = mk_obj (List.tl t) in
  match r with
  | h :: ops ->
      let file = unhex h in
      let flen = List.length file in
      let old = dumps o in
      let rf = dumps (snd (load o file)) in
      let out = Buffer.create 256 in
      let run bytes =
        let (ok, o') = load o bytes in
        if Buffer.length out > 0 then Buffer.add_char out ' ';
        Buffer.add_string out ((if ok then "A:" else "E:") ^ classify (dumps o') old rf) in
      let farr = Array.of_list file in
      List.iter (fun op ->
        match op.[0] with
        | 't' ->
            let d = String.index op '-' in
            let a = int_of_string (String.sub op 1 (d - 1)) and b = int_of_string (String.sub op (d + 1) (String.length op - d - 1)) in
            let n = ref a in
            while !n < b && !n <= flen do run (Array.to_list (Array.sub farr 0 !n)); incr n done
        | 's' ->
            let d = String.index op ':' in
            let pos = int_of_string (String.sub op 1 (d - 1)) and by = int_of_string (String.sub op (d + 1) (String.length op - d - 1)) in
            let f = Array.copy farr in
            if pos < flen then f.(pos) <- byte_tab.(by land 255);
            run (Array.to_list f)
        | 'a' -> run (file @ unhex (String.sub op 1 (String.length op - 1)))
        | _ -> failwith "bad op") ops;
      if Buffer.length out = 0 then "-" else Buffer.contents out
  | _ -> "badcase"
let do_savefail t =
  let (o, r) = mk_obj (List.tl t) in
  match r with
  | [mode] ->
      let (open_ok, room, show_size) =
        if mode = "nodir" then (false, M.N0, false)
        else if mode = "devfull" then (true, M.N0, false)
        else (true, n_of_string (String.sub mode 6 (String.length mode - 6)), true) in
      let m = (match o with
               | P (ws, p) -> M.save_parameter open_ok ws p
               | Md (ws, es) -> M.save_model open_ok ws es
               | O x -> M.save_optimizer open_ok (M.uint_configs x) (M.float_configs x)) in
      let (ok, data) = M.run_save m room in
      (if ok then "returned" else "throws") ^ (if show_size then " size=" ^ string_of_int (List.length data) else "")
  | _ -> "badcase"
let do_layout t =
  match t with
  | ["layout"; td; cs] ->
      let x = tdesc td in
      let b = M.payload x.M.twords in
      let arr = Array.of_list b in
      let dims = x.M.tshape.M.dims in
      (* pad the stored dims to the coordinate length: d_k = 1 beyond depth, batch last *)
      String.concat "," (List.map (fun c ->
        let c = nums c in
        let nd = List.length c - 1 in
        let rec pad l n = if n = 0 then [] else match l with [] -> byte_tab.(1) :: pad [] (n - 1) | d :: r -> d :: pad r (n - 1) in
        let idx = int_of_n (M.flat_index (pad dims nd @ [x.M.tshape.M.batch]) c) in
        let w = List.fold_right (fun j acc -> acc * 256 + int_of_n arr.(4 * idx + j)) [0; 1; 2; 3] 0 in
        string_of_int w) (split_on ';' cs))
  | _ -> "badcase"

(* ---------------- large-size headers (no payload is materialised) ----------------
   hdr: the header is the proved codec's header function of the size (HeaderRowsProofs.w_bin_header
   etc.: w_bin s = bin_hdr (len s) ++ s), the total length follows from it, and the round trip theorem
   says the Reader returns the n bytes / elements written and leaves the sentinel. *)
let mask62 = (1 lsl 62) - 1
let mix h x = (h * 31 + x) land mask62
let pat i = (i * 131 + (i lsr 8) * 17 + 7) land 255
let n_of_i i = n_of_z (Z.of_int i)
let do_hdr t =
  match t with
  | "hdr" :: k :: a :: r ->
      let n = int_of_string a in
      let bytes_sum () = let h = ref 0 in for i = 0 to n - 1 do h := mix !h (pat i) done; !h in
      let line hd payload tail desc =
        hex hd ^ " total=" ^ string_of_int (List.length hd + payload) ^ " tail=" ^ tail ^ " | rd " ^ desc ^ " rest=1" in
      if n >= 4294967296 then raise Err else
      (match k, r with
       | "str", [] -> line (M.str_hdr (n_of_i n)) n "1" ("n=" ^ a ^ " sum=" ^ string_of_int (bytes_sum ()))
       | "bin", [] -> line (M.bin_hdr (n_of_i n)) n "1" ("n=" ^ a ^ " sum=" ^ string_of_int (bytes_sum ()))
       | "ext", [ty] -> line (M.ext_hdr (zarg ty) (n_of_i n)) n "1" ("ty=" ^ sh_z (zarg ty) ^ " n=" ^ a ^ " sum=" ^ string_of_int (bytes_sum ()))
       | "arr", [] ->
           let h = ref 0 in for i = 0 to n - 1 do h := mix !h ((i * 2654435761) land 0xffffffff) done;
           line (M.arr_hdr (n_of_i n)) (5 * n) "-" ("n=" ^ a ^ " sum=" ^ string_of_int !h)
       | "map", [] ->
           let h = ref 0 in for i = 0 to n - 1 do h := !h + i * 31 + ((i * 2654435761) land 0xffffffff) done;
           line (M.map_hdr (n_of_i n)) (10 * n) "-" ("n=" ^ a ^ " sum=" ^ string_of_int (!h land mask62))
       | _ -> "badcase")
  | _ -> "badcase"
(* bigparam: Properties_C13_headers.C13_parameter_file_prefix *)
let do_bigparam t =
  match t with
  | ["bigparam"; a; ws] ->
      let n = int_of_string a in
      (match M.mk_shape [n_of_i n] (n_of_i 1) with
       | None -> raise Err
       | Some sh ->
           let pre = M.param_file_prefix sh in
           ignore ws;
           hex pre ^ " total=" ^ string_of_int (List.length pre + 4 * n + 5) ^ " suffix=" ^ hex (M.w_u32 M.N0) ^ " payload=1 load=ok same=1")
  | _ -> "badcase"

(* ---------------- model-only commands ---------------- *)
(* independent oracle: the whole file must be a sequence of MessagePack objects whose trees
   have the documented layout and carry exactly the content of [o] *)
let g_u32 n = M.GUInt (n_of_int 32, n)
let g_tensor (t : M.tensor) =
  [M.GArr (List.map g_u32 t.M.tshape.M.dims); g_u32 t.M.tshape.M.batch; M.GBin (M.payload t.M.twords)]
let g_param_inner ws (p : M.param) =
  g_tensor p.M.p_value @
  (if ws then g_u32 (n_of_z (Z.of_int (List.length p.M.p_stats))) :: List.concat_map (fun (k, t) -> M.GStr k :: g_tensor t) p.M.p_stats
   else [g_u32 M.N0])
let g_header dt = [g_u32 M.N0; g_u32 (n_of_int 1); g_u32 (n_of_z (Z.of_int dt))]
let expected_trees = function
  | P (ws, p) -> g_header 0x200 @ g_param_inner ws p
  | Md (ws, es) -> g_header 0x300 @ [g_u32 (n_of_z (Z.of_int (List.length es)))] @
                   List.concat_map (fun (k, p) -> M.GArr (List.map (fun s -> M.GStr s) k) :: g_param_inner ws p) es
  | O x -> g_header 0x400 @
           [M.GMap (List.map (fun (k, v) -> (M.GStr k, g_u32 v)) (M.uint_configs x));
            M.GMap (List.map (fun (k, v) -> (M.GStr k, M.GF32 v)) (M.float_configs x))]
(* canonical form up to the unspecified iteration order of unordered_map *)
let rec canon_tree = function
  | M.GMap l -> M.GMap (List.sort compare (List.map (fun (k, v) -> (canon_tree k, canon_tree v)) l))
  | M.GArr l -> M.GArr (List.map canon_tree l)
  | t -> t
(* chk <kind> [<ws>] <desc> <hex of the file written by the C++ side> *)
let do_chk t =
  let (o, r) = mk_obj (List.tl t) in
  match r with
  | [h] ->
      let file = unhex h in
      let fresh = (match o with
                   | P (ws, _) -> P (ws, invalid_param)
                   | Md (ws, es) -> Md (ws, List.map (fun (k, _) -> (k, invalid_param)) es)
                   | O x -> O { x with M.o_epoch = n_of_int 99; M.o_lr_scale = n_of_int 7; M.o_l2 = n_of_int 8; M.o_clip = n_of_int 9;
                                       M.o_hp = List.map (fun _ -> n_of_int 5) x.M.o_hp }) in
      (* 1. typed load into a fresh object of the same structure reproduces the description *)
      let (ok, o') = load fresh file in
      if not ok then "typed-load-rejected" else
      let strip = function
        | P (ws, p) -> P (ws, { p with M.p_grad = M.zeros p.M.p_shape; M.p_stats = if ws then p.M.p_stats else [] })
        | Md (ws, es) -> Md (ws, List.map (fun (k, p) -> (k, { p with M.p_grad = M.zeros p.M.p_shape; M.p_stats = if ws then p.M.p_stats else [] })) es)
        | O x -> O x in
      if dumps o' <> dumps (strip o) then "typed-load-differs " ^ joinv (dumps o') " & " else
      (* 2. re-encoding what was read (in the order read) gives the very same bytes *)
      let same_bytes =
        (match o' with
         | O _ ->
             (* the order of map entries is the C++ side's: re-encode the maps in file order *)
             let ( >>= ) m f = match m with Some (a, r) -> f a r | None -> None in
             (match (M.r_u32 file >>= fun _ r -> M.r_u32 r >>= fun _ r -> M.r_u32 r >>= fun _ r ->
                     M.r_map M.r_str M.r_u32 r >>= fun uc r -> M.r_map M.r_str M.r_f32 r >>= fun fc r ->
                     Some ((uc, fc), r)) with
              | Some ((uc, fc), []) -> M.enc_opt_file uc fc = file
              | _ -> false)
         | _ -> encode o' = file) in
      if not same_bytes then "reencode-differs " ^ hex (encode o') else
      (* 3. the independent grammar accepts the whole file and sees the documented layout *)
      (match M.parse_all file with
       | None -> "generic-parse-rejected"
       | Some trees ->
           let exp = expected_trees (strip o') in
           let exp = (match o with O _ -> expected_trees o | _ -> exp) in
           if List.map canon_tree trees <> List.map canon_tree exp then "generic-layout-differs" else
           let direct = (encode o = file) in
           "ok" ^ (if direct then " identical" else " reordered"))
  | _ -> "badcase"

let eval t =
  match t with
  | "raw" :: _ -> do_raw t
  | "rawrd" :: _ -> do_rawrd t
  | "save" :: _ -> do_save t
  | "load" :: _ -> do_load t
  | "dmg" :: _ -> do_dmg t
  | "savefail" :: _ -> do_savefail t
  | "layout" :: _ -> do_layout t
  | "hdr" :: _ -> do_hdr t
  | "bigparam" :: _ -> do_bigparam t
  | "chk" :: _ -> do_chk t
  | _ -> "badcase"
let () =
  iter_lines (fun line ->
    let t = toks line in
    print_endline (try eval t with Err -> "err"))
