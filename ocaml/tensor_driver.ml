(* Evaluates the extracted index-program model of the Naive kernels on exact integer data.
   Same case file and output format as harness/tensor_drv.cc. *)
exception Argerr
exception Err
let rec ion = function M.O -> 0 | M.S n -> 1 + ion n
let noi = nat_of_int
(* axis arguments: the kernels depend on the axis only through nth/firstn, which are constant for
   axis >= depth (<= 8), so large uint32 axes are clamped to 9 before the unary conversion *)
let dimn s = nat_of_int (min (int_of_string s) 9)
let zi n = Z.to_int (z_of_n n)
let shape_of_string s =
  match String.split_on_char ':' s with
  | [ds; b] -> (match M.mk_shape (nlist_of_string ds) (n_of_string b) with
                | Some sh -> sh | None -> raise Argerr)
  | _ -> failwith ("bad shape " ^ s)
let shapes_of_string s = List.map shape_of_string (split_on ';' s)
let ts (s : M.shape) : M.tshape = { M.tdims = List.map (fun d -> noi (zi d)) s.M.dims; M.tbatch = noi (zi s.M.batch) }
let size (s : M.shape) = zi s.M.batch * zi s.M.volume
let get = function Some x -> x | None -> raise Err
let n = n_of_string
let ints s = List.map int_of_string (split_on ',' s)
(* data patterns (identical in tensor_drv.cc) *)
let ident k sz = Array.init sz (fun i -> k * 100000 + i)
let arith k sz = Array.init sz (fun i -> ((i * 7 + 3 * k) mod 11) - 5)
let ties k sz = Array.init sz (fun i -> ((i * 7 + 3 * k) mod 5) - 2)
let g0 sz = Array.init sz (fun i -> ((i * 5 + 1) mod 7) - 3)
let gyv sz = Array.init sz (fun i -> ((i * 3 + 2) mod 5) + 1)
let gyid sz = Array.init sz (fun i -> i + 1)
let sentinel = min_int
let pr_shape (sh : M.shape) = Printf.sprintf "%s:%s" (string_of_nlist sh.M.dims) (string_of_n sh.M.batch)
let pr_arr a = String.concat "," (Array.to_list (Array.map (fun v -> if v = sentinel then "uninit" else string_of_int v) a))
let out sh a = Printf.sprintf "ok %s %s" (pr_shape sh) (pr_arr a)
let rd a i = if i < 0 || i >= Array.length a then failwith "model-oob-read" else a.(i)
let wr a i v = if i < 0 || i >= Array.length a then failwith "model-oob-write" else a.(i) <- v
let run_mov prog (xs : int array list) sz =
  let y = Array.make sz sentinel in
  List.iter (fun (d, (k, s)) ->
    let d = ion d in
    if y.(d) <> sentinel then failwith "model-double-write";
    wr y d (rd (List.nth xs (ion k)) (ion s))) prog; y
let run_acc prog gy gx = List.iter (fun (d, s) -> let d = ion d in wr gx d (rd gx d + rd gy (ion s))) prog; gx
let run_ab prog f a b sz =
  let y = Array.make sz sentinel in
  List.iter (fun (d, (ia, ib)) -> wr y (ion d) (f (rd a (ion ia)) (rd b (ion ib)))) prog; y
let matmul_eval sa sb sy a b =
  let y = Array.make (size sy) 0 in
  List.iter (fun (d, (ia, ib)) -> let d = ion d in wr y d (rd y d + rd a (ion ia) * rd b (ion ib)))
    (M.matmul_contribs (ts sa) (ts sb) (ts sy)); y
let transpose_eval sx x = let sy = get (M.transpose sx) in (sy, run_mov (M.transpose_fw (ts sx) (ts sy)) [x] (size sy))
let inplace_add_eval sx sy x y = run_acc (M.inplace_add (ts sx) (ts sy)) x y
let check c = if not c then raise Err
let lowest = "lowest"
let eval toks =
  match toks with
  | ["slice_fw"; sx; dim; lo; up] ->
      let sx = shape_of_string sx in let sy = get (M.slice sx (n dim) (n lo) (n up)) in
      let prog = M.slice_fw (ts sx) (ts sy) (dimn dim) (noi (int_of_string lo)) in
      out sy (run_mov prog [ident 0 (size sx)] (size sy))
  | ["slice_bw"; sgy; sgx; dim; off] ->
      let sy = shape_of_string sgy and sx = shape_of_string sgx in
      let d = min (int_of_string dim) 9 and o = int_of_string off in
      check (M.has_same_loo_dims sy sx (n dim) && M.has_compatible_batch sy sx && o + zi (M.get sy (n dim)) <= zi (M.get sx (n dim)));
      let gy = gyid (size sy) and gx = g0 (size sx) in
      if d >= zi (M.depth sx) then out sx (inplace_add_eval sy sx gy gx)
      else out sx (run_acc (M.slice_bw (ts sy) (ts sx) (noi d) (noi o)) gy gx)
  | ["pick_fw"; sx; ids; dim] ->
      let sx = shape_of_string sx in let sy = get (M.pick sx (nlist_of_string ids) (n dim)) in
      out sy (run_mov (M.pick_fw (ts sx) (ts sy) (List.map noi (ints ids)) (dimn dim)) [ident 0 (size sx)] (size sy))
  | ["pick_bw"; sgy; sgx; ids; dim] ->
      let sy = shape_of_string sgy and sx = shape_of_string sgx in
      let sy' = get (M.pick sx (nlist_of_string ids) (n dim)) in
      check (M.shape_eqb sy sy');
      out sx (run_acc (M.pick_bw (ts sy) (ts sx) (List.map noi (ints ids)) (dimn dim)) (gyid (size sy)) (g0 (size sx)))
  | ["concat_fw"; xs; dim] ->
      let xs = shapes_of_string xs in let sy = get (M.concat xs (n dim)) in
      out sy (run_mov (M.concat_fw (List.map ts xs) (ts sy) (dimn dim)) (List.mapi (fun k s -> ident k (size s)) xs) (size sy))
  | ["broadcast_fw"; sx; dim; sz] ->
      let sx = shape_of_string sx in let sy = get (M.broadcast sx (n dim) (n sz)) in
      out sy (run_mov (M.broadcast_fw (ts sx) (ts sy) (dimn dim) (noi (int_of_string sz))) [ident 0 (size sx)] (size sy))
  | ["flip_fw"; sx; dim] ->
      let sx = shape_of_string sx in
      let prog = List.map (fun (d, s) -> (d, (M.O, s))) (M.flip_pairs (ts sx) (dimn dim)) in
      out sx (run_mov prog [ident 0 (size sx)] (size sx))
  | ["flip_bw"; sx; dim] ->
      let sx = shape_of_string sx in
      out sx (run_acc (M.flip_pairs (ts sx) (dimn dim)) (gyid (size sx)) (g0 (size sx)))
  | ["transpose_fw"; sx] ->
      let sx = shape_of_string sx in let (sy, y) = transpose_eval sx (ident 0 (size sx)) in out sy y
  | ["transpose_bw"; sx] ->
      let sx = shape_of_string sx in let sy = get (M.transpose sx) in
      let (st, t) = transpose_eval sy (gyid (size sy)) in
      out sx (inplace_add_eval st sx t (g0 (size sx)))
  | ["permute_fw"; sx; perm] ->
      let sx = shape_of_string sx in let sy = get (M.permute_dims sx (nlist_of_string perm)) in
      out sy (run_mov (M.permute_fw (ts sx) (ts sy) (List.map noi (ints perm))) [ident 0 (size sx)] (size sy))
  | ["permute_bw"; sx; perm] ->
      let sx = shape_of_string sx in let sy = get (M.permute_dims sx (nlist_of_string perm)) in
      out sx (run_acc (M.permute_bw (ts sx) (ts sy) (List.map noi (ints perm))) (gyid (size sy)) (g0 (size sx)))
  | ["batch_pick_fw"; sx; ids] ->
      let sx = shape_of_string sx in let sy = get (M.batch_pick sx (nlist_of_string ids)) in
      out sy (run_mov (M.batch_pick_fw (ts sx) (ts sy) (List.map noi (ints ids))) [ident 0 (size sx)] (size sy))
  | ["batch_pick_bw"; sgy; sgx; ids] ->
      let sy = shape_of_string sgy and sx = shape_of_string sgx in
      check (M.shape_eqb sy (get (M.batch_pick sx (nlist_of_string ids))));
      out sx (run_acc (M.batch_pick_bw (ts sy) (ts sx) (List.map noi (ints ids))) (gyid (size sy)) (g0 (size sx)))
  | ["batch_slice_fw"; sx; lo; up] ->
      let sx = shape_of_string sx in let sy = get (M.batch_slice sx (n lo) (n up)) in
      out sy (run_mov (M.batch_slice_fw (ts sx) (ts sy) (noi (int_of_string lo))) [ident 0 (size sx)] (size sy))
  | ["batch_slice_bw"; sgy; sgx; off] ->
      let sy = shape_of_string sgy and sx = shape_of_string sgx in
      check (M.has_same_dims sy sx && int_of_string off + zi sy.M.batch <= zi sx.M.batch);
      out sx (run_acc (M.batch_slice_bw (ts sy) (ts sx) (noi (int_of_string off))) (gyid (size sy)) (g0 (size sx)))
  | ["batch_concat_fw"; xs] ->
      let xs = shapes_of_string xs in let sy = get (M.batch_concat xs) in
      out sy (run_mov (M.batch_concat_fw (List.map ts xs)) (List.mapi (fun k s -> ident k (size s)) xs) (size sy))
  | [("sum_fw" | "max_fw" | "min_fw") as op; sx; dim] ->
      let sx = shape_of_string sx in let sy = get (M.reduce sx (n dim)) in
      let x = (if op = "sum_fw" then arith else ties) 0 (size sx) in
      let y = Array.make (size sy) sentinel in
      List.iter (fun (d, srcs) ->
        let vs = List.map (fun s -> rd x (ion s)) srcs in
        let v = match op with
          | "sum_fw" -> List.fold_left (+) 0 vs
          | "max_fw" -> List.fold_left (fun t v -> if v > t then v else t) (List.hd vs) vs
          | _ -> List.fold_left (fun t v -> if v < t then v else t) (List.hd vs) vs in
        wr y (ion d) v) (M.axis_red (ts sx) (ts sy) (dimn dim));
      out sy y
  | [("max_bw" | "min_bw") as op; sx; dim] ->
      let sx = shape_of_string sx in let sy = get (M.reduce sx (n dim)) in
      let x = ties 0 (size sx) in
      let gy = gyv (size sy) and gx = g0 (size sx) in
      List.iter (fun (d, srcs) ->
        let idx = List.map ion srcs in
        let vs = List.map (rd x) idx in
        let m = if op = "max_bw" then List.fold_left max (List.hd vs) vs else List.fold_left min (List.hd vs) vs in
        let first = List.find (fun i -> rd x i = m) idx in
        wr gx first (rd gx first + rd gy (ion d))) (M.axis_red (ts sx) (ts sy) (dimn dim));
      out sx gx
  | [("argmax" | "argmin") as op; sx; dim] ->
      let sx = shape_of_string sx in
      check (true);
      let x = ties 0 (size sx) in
      let res = List.map (fun (_, srcs) ->
        let vs = List.map (fun s -> rd x (ion s)) srcs in
        let (_, best, _) = List.fold_left (fun (j, bj, bv) v ->
          if (if op = "argmax" then v > bv else v < bv) then (j + 1, j, v) else (j + 1, bj, bv)) (0, 0, List.hd vs) vs in
        best) (M.arg_red (ts sx) (dimn dim)) in
      "ids " ^ String.concat "," (List.map string_of_int res)
  | ["batch_sum_fw"; sx] ->
      let sx = shape_of_string sx in let sy = get (M.batch_sum sx) in
      let x = arith 0 (size sx) in let y = Array.make (size sy) sentinel in
      List.iter (fun (d, srcs) -> wr y (ion d) (List.fold_left (fun t s -> t + rd x (ion s)) 0 srcs)) (M.batch_sum_red (ts sx) (ts sy));
      out sy y
  | [("add_fw" | "sub_fw" | "mul_fw") as op; sa; sb] ->
      let sa = shape_of_string sa and sb = shape_of_string sb in let sy = get (M.elementwise sa sb) in
      let f = match op with "add_fw" -> (+) | "sub_fw" -> (-) | _ -> ( * ) in
      out sy (run_ab (M.ab_fw (ts sa) (ts sb) (ts sy)) f (arith 0 (size sa)) (arith 1 (size sb)) (size sy))
  | [("adds_fw" | "subsr_fw" | "subsl_fw" | "muls_fw") as op; sx; sk] ->
      let sx = shape_of_string sx and sk = shape_of_string sk in let sy = get (M.scalar_op sx sk) in
      let f = match op with "adds_fw" -> (+) | "subsr_fw" -> (-) | "subsl_fw" -> (fun x k -> k - x) | _ -> ( * ) in
      out sy (run_ab (M.scalar_fw (ts sx) (ts sk) (ts sy)) f (arith 0 (size sx)) (arith 1 (size sk)) (size sy))
  | [("add_bw" | "sub_bw" | "mul_bw") as op; sa; sb] ->
      let sa = shape_of_string sa and sb = shape_of_string sb in let sy = get (M.elementwise sa sb) in
      let a = arith 0 (size sa) and b = arith 1 (size sb) in
      let gy = gyv (size sy) and ga = g0 (size sa) and gb = g0 (size sb) in
      List.iter (fun (d, (ia, ib)) ->
        let k = rd gy (ion d) and ia = ion ia and ib = ion ib in
        (match op with
         | "add_bw" -> wr ga ia (rd ga ia + k); wr gb ib (rd gb ib + k)
         | "sub_bw" -> wr ga ia (rd ga ia + k); wr gb ib (rd gb ib - k)
         | _ -> wr ga ia (rd ga ia + k * rd b ib); wr gb ib (rd gb ib + k * rd a ia)))
        (M.ab_bw (ts sa) (ts sb) (ts sy));
      Printf.sprintf "ok2 %s|%s" (pr_arr ga) (pr_arr gb)
  | [("inplace_add" | "inplace_sub") as op; sx; sy] ->
      let sx = shape_of_string sx and sy = shape_of_string sy in
      check (M.has_same_dims sx sy && M.has_compatible_batch sx sy);
      let x = arith 0 (size sx) and y = g0 (size sy) in
      List.iter (fun (d, s) -> let d = ion d in
        wr y d (if op = "inplace_add" then rd y d + rd x (ion s) else rd y d - rd x (ion s))) (M.inplace_add (ts sx) (ts sy));
      out sy y
  | ["matmul_fw"; sa; sb] ->
      let sa = shape_of_string sa and sb = shape_of_string sb in let sy = get (M.matmul sa sb) in
      out sy (matmul_eval sa sb sy (arith 0 (size sa)) (arith 1 (size sb)))
  | ["matmul_bw"; sa; sb] ->
      let sa = shape_of_string sa and sb = shape_of_string sb in let sy = get (M.matmul sa sb) in
      let a = arith 0 (size sa) and b = arith 1 (size sb) in
      let gy = gyv (size sy) and ga = g0 (size sa) and gb = g0 (size sb) in
      let (sbt, bt) = transpose_eval sb b in
      let s1 = get (M.matmul sy sbt) in
      let ga = inplace_add_eval s1 sa (matmul_eval sy sbt s1 gy bt) ga in
      let (sat, at) = transpose_eval sa a in
      let s2 = get (M.matmul sat sy) in
      let gb = inplace_add_eval s2 sb (matmul_eval sat sy s2 at gy) gb in
      Printf.sprintf "ok2 %s|%s" (pr_arr ga) (pr_arr gb)
  | [("conv2d_fw" | "conv2d_bw") as op; sx; sw; p0; p1; s0; s1; d0; d1] ->
      let sx = shape_of_string sx and sw = shape_of_string sw in
      let sy = get (M.conv2d sx sw (n p0) (n p1) (n s0) (n s1) (n d0) (n d1)) in
      let i s = noi (int_of_string s) in
      let tr = M.conv2d_triples (ts sx) (ts sw) (ts sy) (i p0) (i p1) (i s0) (i s1) (i d0) (i d1) in
      let x = arith 0 (size sx) and w = arith 1 (size sw) in
      if op = "conv2d_fw" then begin
        let y = Array.make (size sy) 0 in
        List.iter (fun (d, (ix, iw)) -> let d = ion d in wr y d (rd y d + rd x (ion ix) * rd w (ion iw))) tr;
        out sy y end
      else begin
        let gy = gyv (size sy) and gx = g0 (size sx) and gw = g0 (size sw) in
        List.iter (fun (d, (ix, iw)) -> let g = rd gy (ion d) and ix = ion ix and iw = ion iw in
          wr gx ix (rd gx ix + g * rd w iw); wr gw iw (rd gw iw + g * rd x ix)) tr;
        Printf.sprintf "ok2 %s|%s" (pr_arr gx) (pr_arr gw) end
  | [("pool_fw" | "pool_bw") as op; sx; w0; w1; p0; p1; s0; s1] ->
      let sx = shape_of_string sx in
      let sy = get (M.pool2d sx (n w0) (n w1) (n p0) (n p1) (n s0) (n s1)) in
      let i s = noi (int_of_string s) in
      let pr = M.pool2d_red (ts sx) (ts sy) (i w0) (i w1) (i p0) (i p1) (i s0) (i s1) in
      let x = ties 0 (size sx) in
      if op = "pool_fw" then begin
        let y = Array.make (size sy) sentinel in
        let low = ref [] in
        List.iter (fun (d, srcs) ->
          match srcs with
          | [] -> low := ion d :: !low; wr y (ion d) 0
          | _ -> wr y (ion d) (List.fold_left (fun t s -> max t (rd x (ion s))) min_int srcs)) pr;
        Printf.sprintf "ok %s %s" (pr_shape sy)
          (String.concat "," (Array.to_list (Array.mapi (fun k v -> if List.mem k !low then lowest else if v = sentinel then "uninit" else string_of_int v) y))) end
      else begin
        let gy = gyv (size sy) and gx = g0 (size sx) in
        List.iter (fun (d, srcs) ->
          match List.map ion srcs with
          | [] -> ()
          | idx -> let m = List.fold_left (fun t s -> max t (rd x s)) min_int idx in
                   let first = List.find (fun s -> rd x s = m) idx in
                   wr gx first (rd gx first + rd gy (ion d))) pr;
        out sx gx end
  | _ -> "badcase"
let () =
  iter_lines (fun line ->
    let toks = List.filter (fun s -> s <> "") (String.split_on_char ' ' line) in
    print_endline (try eval toks with Argerr -> "argerr" | Err -> "err" | Failure m -> "model-failure " ^ m | Not_found -> "model-failure notfound"))
