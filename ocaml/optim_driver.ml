(* Runs optimizer histories (C12) and checkpoint/resume runs (C15) on the extracted Coq model
   (Optim/OptModel.v, Optim/Checkpoint.v) with float32 emulation: every scalar operation is
   computed in double and rounded to binary32 (for + - * / sqrt this is the correctly rounded
   binary32 result); Adam's `1 - pow(beta, epoch)` is one double computation through libm
   followed by one rounding, as in the C++.  Same case file and output as harness/opt_drv.cc. *)
let r x = Int32.float_of_bits (Int32.bits_of_float x)
let zf n = Z.to_float (z_of_n n)
let fops : float M.ops = {
  M.szero = 0.0; sone = 1.0;
  sadd = (fun a b -> r (a +. b)); ssub = (fun a b -> r (a -. b));
  smul = (fun a b -> r (a *. b)); sdiv = (fun a b -> r (a /. b));
  sneg = (fun a -> -. a); ssqrt = (fun a -> r (sqrt a));
  sexp = (fun a -> r (exp a)); slog = (fun a -> r (log a)); stanh = (fun a -> r (tanh a));
  ssin = (fun a -> r (sin a)); scos = (fun a -> r (cos a)); stan = (fun a -> r (tan a));
  spow = (fun a b -> r (a ** b));
  somp = (fun b n -> r (1.0 -. (b ** zf n)));
  sltb = (fun a b -> a < b); seqb = (fun a b -> a = b);
  sof_N = (fun n -> r (zf n)) }

(* extracted Coq strings <-> OCaml strings *)
let ascii_of_char c =
  let k = Char.code c in
  let b i = (k lsr i) land 1 = 1 in
  M.Ascii (b 0, b 1, b 2, b 3, b 4, b 5, b 6, b 7)
let char_of_ascii (M.Ascii (a, b, c, d, e, f, g, h)) =
  let v x i = if x then 1 lsl i else 0 in
  Char.chr (v a 0 + v b 1 + v c 2 + v d 3 + v e 4 + v f 5 + v g 6 + v h 7)
let cstr (s : string) : M.string =
  let rec go i = if i >= String.length s then M.EmptyString else M.String (ascii_of_char s.[i], go (i + 1)) in
  go 0
let rec ostr = function M.EmptyString -> "" | M.String (c, r) -> String.make 1 (char_of_ascii c) ^ ostr r

let fbits s = Int32.float_of_bits (Int32.of_string ("0x" ^ s))
let bits x = if x <> x then "7fc00000" else Printf.sprintf "%08lx" (Int32.bits_of_float x)
let vec s = List.map fbits (split_on ',' s)
let pvec v = if v = [] then "-" else String.concat "," (List.map bits v)
let ids s = List.map (fun t -> nat_of_int (int_of_string t)) (split_on ',' s)

let mk_alg kind hs =
  match kind, hs with
  | "sgd", [a] -> M.SGD a
  | "msgd", [a; b] -> M.MomentumSGD (a, b)
  | "adagrad", [a; b] -> M.AdaGrad (a, b)
  | "rmsprop", [a; b; c] -> M.RMSProp (a, b, c)
  | "adadelta", [a; b] -> M.AdaDelta (a, b)
  | "adam", [a; b; c; d] -> M.Adam (a, b, c, d)
  | _ -> failwith "bad optimizer header"
(* the C++ default constructor arguments, as float literals *)
let default_alg kind =
  match kind with
  | "sgd" -> M.SGD (r 0.1)
  | "msgd" -> M.MomentumSGD (r 0.01, r 0.9)
  | "adagrad" -> M.AdaGrad (r 0.001, r 1e-8)
  | "rmsprop" -> M.RMSProp (r 0.01, r 0.9, r 1e-8)
  | "adadelta" -> M.AdaDelta (r 0.95, r 1e-6)
  | "adam" -> M.Adam (r 0.001, r 0.9, r 0.999, r 1e-8)
  | _ -> failwith "bad kind"
let hypers = function
  | M.SGD a -> [a] | M.MomentumSGD (a, b) -> [a; b] | M.AdaGrad (a, b) -> [a; b]
  | M.RMSProp (a, b, c) -> [a; b; c] | M.AdaDelta (a, b) -> [a; b] | M.Adam (a, b, c, d) -> [a; b; c; d]

let known_stats = ["AdaDelta.m1"; "AdaDelta.m2"; "AdaGrad.m"; "Adam.m1"; "Adam.m2"; "MomentumSGD.m"; "RMSProp.m"; "X.custom"]

let dump_param with_grad i = function
  | None -> Printf.sprintf "P%d[invalid]" i
  | Some p ->
      let st = List.filter_map (fun n ->
        match M.get_stat (cstr n) p.M.p_stats with
        | Some v -> Some (Printf.sprintf "|%s=%s" n (pvec v)) | None -> None) known_stats in
      Printf.sprintf "P%d[v=%s%s%s]" i (pvec p.M.p_value)
        (if with_grad then "|g=" ^ pvec p.M.p_grad else "") (String.concat "" st)
let dump with_grad (s : float M.state) =
  let o = s.M.st_opt in
  Printf.sprintf "E%s S=%s,%s,%s H=%s %s" (string_of_n o.M.o_epoch) (bits o.M.o_lr_scale) (bits o.M.o_l2)
    (bits o.M.o_clip) (pvec (hypers o.M.o_alg))
    (String.concat " " (List.mapi (dump_param with_grad) s.M.st_params))

let parse_cfg conv s =   (* key=val,key=val *)
  List.map (fun kv -> match String.split_on_char '=' kv with
    | [k; v] -> (cstr k, conv v) | _ -> failwith "bad cfg") (split_on ',' s)
let show_cfg pr l =
  String.concat "," (List.sort compare (List.map (fun (k, v) -> ostr k ^ "=" ^ pr v) l))

(* the deterministic gradient oracle of the C15 runs (same arithmetic as opt_drv.cc):
   g[j] = v[j] * 0.3f + ((7 t + 3 i + 5 j) mod 11 - 5) / 8 *)
let oracle (t : M.nat) (vals : float list option list) (i : M.nat) : float list =
  let t = int_of_nat t and i = int_of_nat i in
  match List.nth_opt vals i with
  | Some (Some v) ->
      List.mapi (fun j x ->
        let b = float_of_int ((7 * t + 3 * i + 5 * j) mod 11 - 5) /. 8.0 in
        r (r (x *. r 0.3) +. b)) v
  | _ -> []

exception Halt of string

(* the iteration order of std::unordered_set<Parameter*> is external behaviour: the C++ driver
   reports it and the model's registered list is put into that order (it must be a
   permutation of what the model has registered, otherwise the case fails) *)
let reorder ord (s : float M.state) : float M.state =
  if ord = "" then s else
  let want = List.map int_of_string (split_on ',' ord) in
  let cur = List.map int_of_nat s.M.st_opt.M.o_reg in
  if List.sort compare cur <> List.sort compare want then raise (Halt "registered-set-mismatch")
  else { s with M.st_opt = M.with_reg s.M.st_opt (List.map nat_of_int want) }

let run_case line =
  let ops = List.map String.trim (String.split_on_char ';' line) in
  let toks o = List.filter (fun t -> t <> "") (String.split_on_char ' ' o) in
  match ops with
  | [] -> "badcase"
  | hd :: rest ->
    let kind, st0 = match toks hd with
      | [_; kind; hs] -> kind, { M.st_params = []; st_opt = M.new_optimizer fops (mk_alg kind (vec hs)) }
      | _ -> failwith "bad header" in
    let st = ref st0 in
    let out = Buffer.create 256 in
    let emit s = if Buffer.length out > 0 then Buffer.add_string out " ; "; Buffer.add_string out s in
    let res tag = function
      | Some s' -> st := s'; emit (tag ^ " ok " ^ dump true !st)
      | None -> emit (tag ^ " err " ^ dump true !st) in
    let with_opt tag f =
      res tag (match f !st.M.st_opt with Some o -> Some { !st with M.st_opt = o } | None -> None) in
    (try
      List.iter (fun o ->
        match toks o with
        | ["param"; "-"] -> st := { !st with M.st_params = !st.M.st_params @ [None] }
        | ["param"; v] ->
            let v = vec v in
            st := { !st with M.st_params = !st.M.st_params @
                    [Some { M.p_value = v; p_grad = List.map (fun _ -> 0.0) v; p_stats = [] }] }
        | ["grad"; i; v] -> res "grad" (M.set_gradient (nat_of_int (int_of_string i)) (vec v) !st)
        | ["stat"; i; name; v] -> res "stat" (M.put_stat fops (nat_of_int (int_of_string i)) (cstr name) (vec v) !st)
        | ["add"; i] -> res "add" (M.add_param fops (nat_of_int (int_of_string i)) !st)
        | ["addm"; l] ->
            (* add_params stops at the first failure and keeps what was registered before it *)
            let rec go = function
              | [] -> true
              | i :: r -> (match M.add_param fops i !st with Some s' -> st := s'; go r | None -> false) in
            let ok = go (ids l) in
            emit ((if ok then "addm ok " else "addm err ") ^ dump true !st)
        | "upd" :: ord ->
                     st := reorder (String.concat "" ord) !st;
                     (match M.update fops !st with
                      | Some s' -> st := s'; emit ("upd ok " ^ dump true !st)
                      | None -> raise (Halt "upd err halt"))
        | ["reset"] -> (match M.reset_gradients fops !st with
                        | Some s' -> st := s'; emit ("reset ok " ^ dump true !st)
                        | None -> raise (Halt "reset err halt"))
        | ["lr"; x] -> with_opt "lr" (M.set_lr_scale fops (fbits x))
        | ["l2"; x] -> with_opt "l2" (M.set_weight_decay fops (fbits x))
        | ["clip"; x] -> with_opt "clip" (M.set_clipping fops (fbits x))
        | ["epoch"; n] -> with_opt "epoch" (fun o -> Some (M.set_epoch (n_of_string n) o))
        | ["setcfg"; u; f] ->
            with_opt "setcfg" (M.set_configs fops (parse_cfg n_of_string u) (parse_cfg fbits f))
        | ["getcfg"] ->
            emit (Printf.sprintf "cfg u:%s f:%s" (show_cfg string_of_n (M.get_uint_configs !st.M.st_opt))
                    (show_cfg bits (M.get_float_configs !st.M.st_opt)))
        | "run" :: k :: n :: _mode :: order :: ords ->
            let k = int_of_string k and n = int_of_string n in
            let ou, orr, ofr = match ords with [a; b; c] -> a, b, c | _ -> "", "", "" in
            let st_u = reorder ou !st and st_r = reorder orr !st in
            let reg = (reorder ofr !st).M.st_opt.M.o_reg in
            let show = function Some s -> dump false s | None -> "err" in
            let u = M.train fops oracle (nat_of_int 0) (nat_of_int (k + n)) st_u in
            let rsm =
              match M.train fops oracle (nat_of_int 0) (nat_of_int k) st_r with
              | None -> None
              | Some sk ->
                match M.checkpoint sk with
                | None -> None
                | Some c ->
                  let fresh =
                    if order = "0" then M.resume fops (default_alg kind) reg c
                    else
                      (* freshly constructed parameters of the right shapes, value 0 *)
                      let init = List.map (function
                        | Some p -> Some { M.p_value = List.map (fun _ -> 0.0) p.M.p_value;
                                           p_grad = List.map (fun _ -> 0.0) p.M.p_value; p_stats = [] }
                        | None -> None) sk.M.st_params in
                      M.resume_add_first fops (default_alg kind) reg init c in
                  (match fresh with
                   | None -> None
                   | Some s -> M.train fops oracle (nat_of_int k) (nat_of_int n) s) in
            emit (Printf.sprintf "run U %s R %s" (show u) (show rsm));
            (match u with Some s -> st := s | None -> ())
        | "rung" :: _ -> emit "rung"
        | [] -> ()
        | _ -> emit "badop") rest
    with Halt s -> emit s);
    Buffer.contents out

let () = iter_lines (fun l ->
  if String.trim l = "" then print_endline "" else
  print_endline (try run_case l with Failure m -> "badcase " ^ m | Not_found -> "badcase"))
