(* C19 model driver.  usage: spin_model [rev|gen]   (program: reviewed copy | regenerated SpinGen)
   stdin, one case per line:
     run K <clients> <sched>      K = S|R; clients = LTUA-strings joined by '/', '-' = empty;
                                  sched = string of thread digits
     explore K <depth> <clients>  bounded search for a failing schedule
     judge K <clients> <sched>    per-step judgement of one schedule
     mexplore 0|1 <depth> <clients>  Identifiable: search interleavings of ctor/dtor/get_object (1 = also report unguarded accesses)
     wb K <clients> <sched>       are the clients well-bracketed along this schedule (Spinlock theorems' hypothesis)
     reg P|D|G <ops>               Identifiable/DefaultSettable history: c<slot> d<slot> g<n> s<slot> q *)
let the_prog = if Array.length Sys.argv > 1 && Sys.argv.(1) = "gen" then M.gen_prog else M.reviewed_prog

let kind_of = function "S" -> M.KSpin | "R" -> M.KRSpin | s -> failwith ("kind " ^ s)
let cop_of = function 'L' -> M.CLock | 'T' -> M.CTry | 'U' -> M.CUnlock | 'A' -> M.CAccess
  | c -> failwith (Printf.sprintf "op %c" c)
let clients_of s =
  List.map (fun w -> if w = "-" then [] else List.map cop_of (List.of_seq (String.to_seq w)))
    (String.split_on_char '/' s)
let sched_of s = if s = "-" then [] else
  List.map (fun c -> Char.code c - 48) (List.of_seq (String.to_seq s))

let letter (ts : M.tstate) = match ts.M.foc with
  | M.FEx (M.ETas _) -> "T"
  | M.FEx (M.EOwnerNe _) | M.FEx (M.EOwnerEq _) -> "L"
  | M.FEx M.EDecIsZero -> "D"
  | M.FSt (M.Clear _ :: _) -> "C"
  | M.FSt (M.StoreOwner _ :: _) -> "S"
  | M.FSt (M.IncCount :: _) -> "I"
  | M.FSt (M.DecCount :: _) -> "D"
  | M.FAccess -> "A"
  | _ -> "?"
let nth_opt l i = try Some (List.nth l i) with _ -> None
let holders_str s = String.concat "" (List.map (fun t -> string_of_int (int_of_nat t)) (M.holders s))

(* what client operations completed between two states of a thread, as a string *)
let completed (a : M.tstate) (b : M.tstate) =
  (* operations run = cur a followed by a prefix of rest a; number completed from the lengths *)
  let la = List.length a.M.rest + (match a.M.cur with Some _ -> 1 | None -> 0) in
  let lb = List.length b.M.rest + (match b.M.cur with Some _ -> 1 | None -> 0) in
  let n = la - lb in
  let ops = (match a.M.cur with Some o -> [o] | None -> []) @ a.M.rest in
  let newout = List.rev (List.filteri (fun i _ -> i < List.length b.M.out - List.length a.M.out) b.M.out) in
  let rec go i ops outs acc = if i = 0 then acc else match ops with
    | [] -> acc
    | M.CTry :: r -> (match outs with
        | x :: os -> go (i-1) r os (acc ^ (if x then "t" else "f"))
        | [] -> go (i-1) r [] (acc ^ "?"))
    | M.CLock :: r -> go (i-1) r outs (acc ^ "l")
    | M.CUnlock :: r -> go (i-1) r outs (acc ^ "u")
    | M.CAccess :: r -> go (i-1) r outs (acc ^ "a") in
  go n ops newout ""

let do_run k clients sched =
  let p = the_prog in
  let m = ref (M.minit p k clients) in
  let buf = Buffer.create 256 in
  List.iter (fun ti ->
    let t = nat_of_int ti in
    let s = fst !m in
    (match nth_opt s.M.thr ti with
     | None -> Buffer.add_string buf "- "
     | Some ts ->
       (match M.adv p k t !m with
        | None -> Buffer.add_string buf "- "
        | Some (m2, _) ->
          let m2 = (match (List.nth (fst m2).M.thr ti).M.foc with
            | M.FIncW _ | M.FDecW _ -> (match M.mstep_ev p k t m2 with Some (m3, _) -> m3 | None -> m2)
            | _ -> m2) in
          let ts2 = List.nth (fst m2).M.thr ti in
          Buffer.add_string buf (Printf.sprintf "%d%s%s:h%s " ti (letter ts) (completed ts ts2) (holders_str (fst m2)));
          m := m2))) sched;
  let s = fst !m in
  let sh = s.M.sh in
  Buffer.add_string buf (Printf.sprintf "| f=%d o=%s c=%s d=%s"
    (if sh.M.flag then 1 else 0)
    (match sh.M.owner with None -> "-" | Some w -> string_of_int (int_of_nat w))
    (string_of_n sh.M.count)
    (String.concat "," (List.map (fun (ts : M.tstate) -> string_of_n ts.M.depth) s.M.thr)));
  Buffer.contents buf

(* does every step of the schedule satisfy the well-bracketedness condition of the Spinlock theorems? *)
let do_wb k clients sched =
  let p = the_prog in
  let m = ref (M.minit p k clients) in
  let ok = ref true in
  List.iter (fun ti ->
    let t = nat_of_int ti in
    if not (M.wb_ok k (fst !m) t) then ok := false;
    (match M.adv p k t !m with Some (m2, _) -> m := m2 | None -> ())) sched;
  if !ok then "wb" else "not-wb"

(* Identifiable, fine-grained: clients = threads joined by '/', operations c<addr> d<addr> g<id> joined by ',' *)
let mixins_prog = if Array.length Sys.argv > 1 && Sys.argv.(1) = "gen" then M.gen_mixins else M.reviewed_mixins
let rop_of tok =
  let a = n_of_string (String.sub tok 1 (String.length tok - 1)) in
  match tok.[0] with 'c' -> M.RCreate a | 'd' -> M.RDestroy a | 'g' -> M.RGet a | _ -> failwith "rop"
let mclients_of s =
  List.map (fun w -> if w = "-" then [] else List.map rop_of (String.split_on_char ',' w)) (String.split_on_char '/' s)
let mreason_str = function
  | M.MBadUnresolvable -> "unresolvable-live-object" | M.MBadDeadResolvable -> "dead-id-resolves"
  | M.MBadUnguarded -> "unguarded-access"

let reason_str = function
  | M.BadMutex -> "mutex" | M.BadRace -> "race" | M.BadWrap -> "wrap" | M.BadQuiescent -> "quiescent"
  | M.BadOwnerTryFails -> "owner-try-fails" | M.BadStuck -> "stuck" | M.BadSideEffect -> "side-effect"
  | M.BadNoAcquire -> "no-acquire"

let do_reg ty toks =
  let r = ref M.reg_init in
  String.concat " " (List.map (fun tok ->
    let c = tok.[0] in
    let arg = if String.length tok > 1 then n_of_string (String.sub tok 1 (String.length tok - 1)) else M.N0 in
    let op = match c with
      | 'c' -> M.RCreate arg | 'd' -> M.RDestroy arg | 'g' -> M.RGet arg | 's' -> M.RSetDefault arg
      | 'q' -> M.RGetDefault | _ -> failwith "reg op" in
    match M.reg_step !r op with
    | None -> "x"
    | Some (r', v) -> r := r';
      (match c, v with
       | 'c', Some i -> if ty = "P" then "i" ^ string_of_n i else "ok"
       | ('g' | 'q'), Some p -> "p" ^ string_of_n p
       | ('g' | 'q'), None -> "err"
       | _, _ -> "ok")) toks)

let () = iter_lines (fun line ->
  let out = try
    (match String.split_on_char ' ' (String.trim line) with
     | ["run"; k; cl; sc] -> do_run (kind_of k) (clients_of cl) (sched_of sc)
     | ["wb"; k; cl; sc] -> do_wb (kind_of k) (clients_of cl) (sched_of sc)
     | ["mexplore"; strict; d; cl] ->
       (match M.mexplore mixins_prog (strict = "1") (mclients_of cl) (nat_of_int (int_of_string d)) with
        | None -> "none"
        | Some (sc, why) -> Printf.sprintf "found %s %s"
            (String.concat "" (List.map (fun t -> string_of_int (int_of_nat t)) sc)) (mreason_str why))
     | ["explore"; k; d; cl] ->
       (match M.explore the_prog (kind_of k) (clients_of cl) (nat_of_int (int_of_string d)) with
        | None -> "none"
        | Some (sc, why) -> Printf.sprintf "found %s %s"
            (String.concat "" (List.map (fun t -> string_of_int (int_of_nat t)) sc)) (reason_str why))
     | ["judge"; k; cl; sc] ->
       (match M.judge_run the_prog (kind_of k) (List.map nat_of_int (sched_of sc))
                (M.minit the_prog (kind_of k) (clients_of cl)) M.O with
        | None -> "ok"
        | Some (i, why) -> Printf.sprintf "bad %d %s" (int_of_nat i) (reason_str why))
     | "reg" :: ty :: toks -> do_reg ty toks
     | _ -> "bad-case")
  with e -> "model-exception " ^ Printexc.to_string e in
  print_endline out)
