(* Evaluates the extracted value-level model of Constant / Identity (coq/Random/InitValues.v) on
   the case file of harness/initvals_drv.cc and prints the same canonical lines.  Scalars are
   binary32 BIT PATTERNS (extracted N): zero = 0x00000000, one = 0x3f800000, k as given.
     tinit <dev> <kind> <kbits> <dims>:<batch>    Initializer::apply on a tensor of that shape
     pinit <dev> <kind> <kbits> <dims>:<batch>    Parameter(shape, initializer, device)
   Output: err | <shape after> <v0,v1,...>   (bit patterns, NaN -> nan); the device is ignored
   by the model (both backends must deliver the same values). *)
let zero = n_of_string "0"
let one = n_of_string "1065353216"
let pr_shape sh = (if sh.M.dims = [] then "-" else string_of_nlist sh.M.dims) ^ ":" ^ string_of_n sh.M.batch
let bstr n =
  let z = z_of_n n in
  if Z.gt (Z.logand z (Z.of_string "0x7fffffff")) (Z.of_string "0x7f800000") then "nan" else Z.to_string z
let vals l = if l = [] then "-" else String.concat "," (List.map bstr l)
let eval toks =
  match toks with
  | [f; _; kind; k; shp] when f = "tinit" || f = "pinit" ->
      (match String.split_on_char ':' shp with
       | [ds; b] ->
           (match M.mk_shape (nlist_of_string ds) (n_of_string b) with
            | None -> "err"                                  (* the Shape constructor throws *)
            | Some s ->
                let i = match kind with
                  | "constant" -> M.DConstant (n_of_string k) | "identity" -> M.DIdentity
                  | _ -> failwith "bad initializer" in
                let r = if f = "tinit" then M.init_tensor zero one i s else M.init_parameter zero one i s in
                (match r with
                 | None -> "err"
                 | Some (s', v) -> pr_shape s' ^ " " ^ vals v))
       | _ -> "badcase")
  | _ -> "badcase"
let () =
  iter_lines (fun line ->
    let toks = List.filter (fun s -> s <> "") (String.split_on_char ' ' line) in
    let out = try eval toks with Failure m -> "model-failure " ^ m in
    print_endline out)
