(* C16: evaluates the extracted registry model (coq/Registry/ModelReg.v) on a case file of
   histories, one op per line; same input and output format as harness/reg_drv.cc. *)
let name_of_string s : M.name =
  if s = "~" then [] else List.map (fun c -> n_of_z (Z.of_int (Char.code c))) (List.init (String.length s) (String.get s))
let string_of_name (nm : M.name) =
  if nm = [] then "~" else String.concat "" (List.map (fun b -> String.make 1 (Char.chr (Z.to_int (z_of_n b)))) nm)
let path_of_string s : M.path =
  if s = "-" then [] else List.map name_of_string (String.split_on_char '/' s)
let string_of_path (p : M.path) = String.concat "/" (List.map string_of_name p)
let nat = fun s -> nat_of_int (int_of_string s)
let pr_listing = function
  | None -> "diverge"
  | Some l -> "ok [" ^ String.concat "," (List.map (fun (k, p) -> string_of_path k ^ "=" ^ string_of_int (int_of_nat p)) l) ^ "]"
let pr_obj = function None -> "err" | Some x -> "ok " ^ string_of_int (int_of_nat x)
let pr_ints l = "[" ^ String.concat "," (List.map string_of_int l) ^ "]"
let pr_set l = pr_ints (List.sort compare (List.map int_of_nat l))

let world = ref (M.empty_world M.O)
let opts = Array.make 4 M.empty_opt
(* per Parameter: valid?, and the tag of the record it holds (Parameter i starts with i+1) *)
let validarr = ref [||]
let tagarr = ref [||]
let valid p = let i = int_of_nat p in i < Array.length !validarr && !validarr.(i)
(* configure_parameter throws?  0 SGD: never; 1 MomentumSGD, 2 Probe(strict): on invalid; 3 Probe(lax): never *)
let okp o p = if o = 0 || o = 3 then true else valid p
let is_probe o = o >= 2
(* the configure calls completed by this op, in call order (the ghost log grows at the head) *)
let cfg_delta before after =
  let nb = List.length before.M.ocfg and na = List.length after.M.ocfg in
  let rec take k l = if k = 0 then [] else match l with [] -> [] | x :: r -> x :: take (k - 1) r in
  List.rev_map int_of_nat (take (na - nb) after.M.ocfg)
let run_m f =
  let (r, w') = f !world in
  world := w';
  match r with Some () -> "ok" | None -> "err"
let run_o o f =
  let before = opts.(o) in
  let (r, o') = f before in
  opts.(o) <- o';
  let s = match r with Some () -> "ok" | None -> "err" in
  if is_probe o then s ^ " cfg=" ^ pr_ints (cfg_delta before o') else s
let eval toks =
  match toks with
  | ["new"; nm; np; nv] ->
      world := M.empty_world (nat nm); Array.fill opts 0 4 M.empty_opt;
      validarr := Array.init (int_of_string np) (fun i -> i < int_of_string nv);
      tagarr := Array.init (int_of_string np) (fun i -> i + 1); "new"
  | ["addp"; m; nm; p] -> run_m (M.add_param (nat m) (name_of_string nm) (nat p))
  | ["addm"; m; nm; c] -> run_m (M.add_model (nat m) (name_of_string nm) (nat c))
  | ["all"; m] -> pr_listing (M.get_all_parameters !world (nat m))
  | ["train"; m] -> pr_listing (M.get_trainable_parameters !world (nat m))
  | ["getp"; m; p] -> pr_obj (M.get_parameter !world (nat m) (path_of_string p))
  | ["gets"; m; p] -> pr_obj (M.get_submodel !world (nat m) (path_of_string p))
  | ["getp1"; m; nm] -> pr_obj (M.get_parameter1 !world (nat m) (name_of_string nm))
  | ["gets1"; m; nm] -> pr_obj (M.get_submodel1 !world (nat m) (name_of_string nm))
  | ["oaddp"; o; p] -> let o = int_of_string o in run_o o (M.opt_add_param (okp o) (nat p))
  | ["oaddm"; o; m] -> let o = int_of_string o in run_o o (M.opt_add_model (okp o) !world (nat m))
  | ["oq"; o] ->
      let o = int_of_string o in
      if is_probe o then "ok " ^ pr_set (M.opt_registered opts.(o))
      else (match M.opt_reset_gradients valid opts.(o) with
            | None -> "err"
            | Some l -> "ok " ^ pr_set (List.filter valid l))
  | ["sl"; src; dst; _ws] ->
      (match M.get_all_parameters !world (nat src) with
       | None -> "diverge"
       | Some l ->
         (* save_inner throws on an invalid Parameter *)
         if not (List.for_all (fun (_, p) -> valid p) l) then "save-err"
         else
           let file = List.map (fun (k, p) -> (k, !tagarr.(int_of_nat p))) l in
           let (res, asg) = M.model_load_plan !world (nat dst) file in
           List.iter (fun (p, tag) -> !tagarr.(int_of_nat p) <- tag; !validarr.(int_of_nat p) <- true) asg;
           (match res with Some () -> "ok" | None -> "err"))
  | ["pv"] ->
      "ok [" ^ String.concat "," (List.init (Array.length !tagarr)
                 (fun i -> if !validarr.(i) then string_of_int !tagarr.(i) else "-")) ^ "]"
  | _ -> "badcase"
let () =
  iter_lines (fun line ->
    let toks = List.filter (fun s -> s <> "") (String.split_on_char ' ' line) in
    print_string (eval toks); print_char '\n')
