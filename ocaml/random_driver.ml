(* Evaluates the extracted Coq model Random/RandModel.v on the case file of harness/rand_drv.cc
   and prints the same canonical result lines.  The oracle (libstdc++ distribution objects on
   the device's mt19937) is instantiated by the raw draws attached to the case line (produced
   by the reference run `mk...` of the C++ driver); scalar formulas run with float32 emulation
   (double operation, then rounding to binary32). *)
let r x = Int32.float_of_bits (Int32.bits_of_float x)
let zf n = Z.to_float (z_of_n n)
let z_of_mz = function M.Z0 -> Z.zero | M.Zpos p -> z_of_pos p | M.Zneg p -> Z.neg (z_of_pos p)
let mz_of_z z = if Z.sign z = 0 then M.Z0 else if Z.sign z > 0 then M.Zpos (pos_of_z z) else M.Zneg (pos_of_z (Z.neg z))
let fops : float M.ops = {
  M.szero = 0.0; sone = 1.0;
  sadd = (fun a b -> r (a +. b)); ssub = (fun a b -> r (a -. b));
  smul = (fun a b -> r (a *. b)); sdiv = (fun a b -> r (a /. b));
  sneg = (fun a -> -. a); ssqrt = (fun a -> r (sqrt a));
  sexp = (fun a -> r (exp a)); slog = (fun a -> r (log a)); stanh = (fun a -> r (tanh a));
  ssin = (fun a -> r (sin a)); scos = (fun a -> r (cos a)); stan = (fun a -> r (tan a));
  spow = (fun a b -> r (a ** b));
  somp = (fun b n -> r (1.0 -. (b ** zf n)));
  sltb = (fun a b -> a < b); seqb = (fun a b -> a = b);
  sof_N = (fun n -> r (zf n)) }
let ubits x = Z.logand (Z.of_int32 (Int32.bits_of_float x)) (Z.of_string "0xffffffff")
let float_of_ubits z = Int32.float_of_bits (Z.to_int32 (if Z.geq z (Z.of_string "0x80000000") then Z.sub z (Z.of_string "0x100000000") else z))
let fbits s = float_of_ubits (Z.of_string s)
let fp_of_float x = M.of_bits (n_of_z (ubits x))
let float_of_fp = function
  | M.FNaN -> nan
  | M.FOrd z -> let z = z_of_mz z in
      if Z.sign z >= 0 then float_of_ubits z else float_of_ubits (Z.add (Z.of_string "0x80000000") (Z.neg z))
let cv : float M.conv = {
  M.tofp = fp_of_float; offp = float_of_fp;
  scaled_sqrt_ratio = (fun scale c n -> r (scale *. sqrt (zf c /. zf n))) }
let ord_s = function M.FNaN -> "nan" | M.FOrd z -> Z.to_string (z_of_mz z)
let fp_of_ord s = if s = "nan" then M.FNaN else M.FOrd (mz_of_z (Z.of_string s))
let ords l = if l = [] then "-" else String.concat "," (List.map ord_s l)
let bstr x = if x <> x then "nan" else Z.to_string (ubits x)
let bitss l = if l = [] then "-" else String.concat "," (List.map bstr l)

(* the oracle: a queue of raw draws *)
exception Exhausted
let take n g =
  let k = Z.to_int (z_of_n n) in
  let rec go k g acc = if k = 0 then (List.rev acc, g) else match g with [] -> raise Exhausted | x :: t -> go (k - 1) t (x :: acc) in
  go k g []
let orc : M.fp list M.oracle = {
  M.o_bern = (fun _ n g -> let (xs, g') = take n g in (List.map (fun x -> x <> M.FOrd M.Z0) xs, g'));
  o_unif = (fun _ _ n g -> take n g);
  o_norm = (fun _ _ n g -> take n g);
  o_lognorm = (fun _ _ n g -> take n g) }

let parse_req s =
  let s, raws = match String.index_opt s '=' with
    | Some i -> String.sub s 0 i, List.map fp_of_ord (split_on ',' (String.sub s (i + 1) (String.length s - i - 1)))
    | None -> s, [] in
  let s = if String.length s > 0 && s.[0] = '!' then String.sub s 1 (String.length s - 1) else s in
  let f x = fp_of_float (fbits x) in
  let q = match String.split_on_char ':' s with
    | ["b"; p; n] -> M.RBern (f p, n_of_string n)
    | ["u"; a; b; n] -> M.RUnif (f a, f b, n_of_string n)
    | ["n"; a; b; n] -> M.RNorm (f a, f b, n_of_string n)
    | ["l"; a; b; n] -> M.RLogNorm (f a, f b, n_of_string n)
    | _ -> failwith "bad request" in
  (q, raws)
let pr_reply = function M.Rejected -> "rej" | M.Values l -> ords l
let strip_eq s = match String.index_opt s '=' with
  | Some i -> String.sub s 0 i, Some (String.sub s (i + 1) (String.length s - i - 1)) | None -> s, None
let shape_of_string s =
  match String.split_on_char ':' s with
  | [ds; b] -> (match M.mk_shape (nlist_of_string ds) (n_of_string b) with Some sh -> sh | None -> failwith "bad shape")
  | _ -> failwith ("bad shape " ^ s)
let pr_shape sh = (if sh.M.dims = [] then "-" else string_of_nlist sh.M.dims) ^ ":" ^ string_of_n sh.M.batch
let rj b = if b then "rej" else "ok"
let eval toks =
  match toks with
  | ["cmp"; a; b] ->
      let x = fp_of_float (fbits a) and y = fp_of_float (fbits b) in
      let c f = if f x y then "1" else "0" in
      Printf.sprintf "%s%s%s%s %s %s %s" (c M.flt) (c M.fle) (c M.fgt) (c M.feq) (ord_s x) (ord_s y) (ord_s (M.nextafter x y))
  | ["val"; "b"; p] -> let d = rj (M.bernoulli_rejects (fp_of_float (fbits p))) in d ^ " " ^ d
  | ["val"; "u"; a; b] -> let d = rj (M.uniform_rejects (fp_of_float (fbits a)) (fp_of_float (fbits b))) in d ^ " " ^ d
  | ["val"; ("n" | "l"); sd] -> let d = rj (M.normal_rejects (fp_of_float (fbits sd))) in d ^ " " ^ d
  | ["stream"; _; _; _; reqs] ->
      let rs = List.map parse_req (split_on ';' reqs) in
      let g = List.concat (List.map snd rs) in
      let (ys, rest) = M.run orc g (List.map fst rs) in
      String.concat ";" (List.map pr_reply ys) ^ (if rest = [] then "" else " oracle-draws-left-over")
  | ["dropout"; _; _; _; rate; en; xs] ->
      let xs, ws = strip_eq xs in
      let g = match ws with Some w -> List.map fp_of_ord (split_on ',' w) | None -> [] in
      (match M.dropout fops cv orc (fbits rate) (en = "1") (List.map fbits (split_on ',' xs)) g with
       | (Some ys, _) -> bitss ys | (None, _) -> "err")
  | ["gumbel"; _; _; _; mu; beta; n] ->
      let n, us = strip_eq n in
      let g = match us with Some u -> List.map fp_of_ord (split_on ',' u) | None -> [] in
      (match M.gumbel fops cv orc (fbits mu) (fbits beta) (n_of_string n) g with
       | (Some ys, _) -> bitss ys | (None, _) -> "err")
  | ["init"; kind; a; b; shp] ->
      let a = fbits a and b = fbits b and s = shape_of_string shp in
      let i = match kind with
        | "constant" -> M.IConstant a | "uniform" -> M.IUniform (a, b) | "normal" -> M.INormal (a, b)
        | "identity" -> M.IIdentity | "xu" -> M.IXavierUniform a | "xn" -> M.IXavierNormal a
        | "xuc" -> M.IXavierUniformConv2D a | "xnc" -> M.IXavierNormalConv2D a | _ -> failwith "bad initializer" in
      (match M.apply_init fops cv i s with
       | None -> "err"
       | Some q -> if M.devreq_rejected cv q then "err" else
           (match q with
            | M.QReset k -> Printf.sprintf "reset %s %s" (pr_shape s) (bstr k)
            | M.QUniform (s', lo, up) -> Printf.sprintf "uniform %s %s %s" (pr_shape s') (bstr lo) (bstr up)
            | M.QNormal (s', m, sd) -> Printf.sprintf "normal %s %s %s" (pr_shape s') (bstr m) (bstr sd)
            | M.QIdentity n -> (match M.mk_shape [n; n] (n_of_string "1") with Some y -> "identity " ^ pr_shape y | None -> "err")))
  | _ -> "badcase"
let () =
  iter_lines (fun line ->
    let toks = List.filter (fun s -> s <> "") (String.split_on_char ' ' line) in
    let out = try eval toks with Exhausted -> "oracle-exhausted" | Failure m -> "model-failure " ^ m in
    print_endline out)
