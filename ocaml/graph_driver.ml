(* graph_driver: the extracted Coq model of Graph::add_operator / forward / backward and of the
   parameter store (Graph/{Tape,Lazy,Backward}.v) run on the histories of harness/lazy_drv.cc
   (same input, same output format: see the header of that file).
   The model is driven ONLY through M.run_cmd; the resulting world (slots' s_val, g_log,
   g_blog, e_pval, e_pgrad, e_pos) is what gets printed.  The operator family (the concrete
   operators of the harness with binary32 arithmetic) and the random stream (std::mt19937 +
   libstdc++ generate_canonical<double,53> + bernoulli) are supplied here. *)

(* ---- binary32 ---- *)
let r32 (x : float) : float = Int32.float_of_bits (Int32.bits_of_float x)
let hex (x : float) : string =
  if x <> x then "nan" else Printf.sprintf "%08lx" (Int32.bits_of_float x)
let hexv (v : float list) : string = String.concat "," (List.map hex v)
let unhex (s : string) : float = Int32.float_of_bits (Int32.of_string ("0x" ^ s))
let unhexv (s : string) : float list = List.map unhex (split_on ',' s)

(* ---- std::mt19937 ---- *)
type mt = { st : int array; mutable idx : int; mutable words : int array; mutable nwords : int }
let mask32 = 0xFFFFFFFF
let mt_make (seed : int) : mt =
  let st = Array.make 624 0 in
  st.(0) <- seed land mask32;
  for i = 1 to 623 do
    st.(i) <- (1812433253 * (st.(i-1) lxor (st.(i-1) lsr 30)) + i) land mask32
  done;
  { st; idx = 624; words = Array.make 64 0; nwords = 0 }
let mt_next (m : mt) : int =
  if m.idx >= 624 then begin
    let st = m.st in
    for i = 0 to 623 do
      let y = (st.(i) land 0x80000000) lor (st.((i+1) mod 624) land 0x7FFFFFFF) in
      let v = st.((i + 397) mod 624) lxor (y lsr 1) in
      st.(i) <- if y land 1 = 1 then v lxor 0x9908B0DF else v
    done;
    m.idx <- 0
  end;
  let y = m.st.(m.idx) in
  m.idx <- m.idx + 1;
  let y = y lxor (y lsr 11) in
  let y = y lxor ((y lsl 7) land 0x9D2C5680) in
  let y = y lxor ((y lsl 15) land 0xEFC60000) in
  let y = y lxor (y lsr 18) in
  y land mask32
(* word number i of the stream (memoised: the stream is a pure function of the seed) *)
let mt_word (m : mt) (i : int) : int =
  while m.nwords <= i do
    if m.nwords = Array.length m.words then begin
      let nw = Array.make (2 * m.nwords) 0 in
      Array.blit m.words 0 nw 0 m.nwords; m.words <- nw
    end;
    m.words.(m.nwords) <- mt_next m; m.nwords <- m.nwords + 1
  done;
  m.words.(i)
(* libstdc++: generate_canonical<double,53> takes 2 words; bernoulli(p): canonical < p *)
let canonical (m : mt) (pos : int) : float =
  let w0 = float_of_int (mt_word m pos) and w1 = float_of_int (mt_word m (pos + 1)) in
  let c = (w0 +. w1 *. 4294967296.0) /. 18446744073709551616.0 in
  if c >= 1.0 then Float.pred 1.0 else c
let bernoulli (m : mt) (pos : int) (n : int) : float list =
  List.init n (fun e -> if canonical m (pos + 2 * e) < 0.5 then 1.0 else 0.0)

(* ---- the operator family of the harness ---- *)
type op =
  | Lin of M.argreq * int * int option     (* num_arguments, returns, device *)
  | Mul2 of int option
  | Param of int
  | Input of int * float list
  | Bern of int * int
  | Const of int * int * float
  | Stop
  | Split of int
  | Mul
  | MulC of float
  | Add

(* per-history tables *)
let streams : mt array ref = ref [||]
let pdev : int array ref = ref [||]
let psize : int array ref = ref [||]

let rec replicate n x = if n <= 0 then [] else x :: replicate (n - 1) x
let map2 f a b = List.map2 f a b
let int_of_n (n : M.n) : int = Z.to_int (z_of_n n)
let n_of_int (i : int) : M.n = n_of_z (Z.of_int i)
let onat = function None -> None | Some d -> Some (nat_of_int d)

let lin_out (xs : float list list) (j : int) : float list =
  match xs with
  | [] -> []
  | x0 :: _ ->
    let n = List.length x0 in
    let arrs = List.map Array.of_list xs in
    List.init n (fun e ->
      let acc = ref 0.0 in
      List.iteri (fun i a -> let c = float_of_int (i + j + 1) in
                   let t = r32 (c *. a.(e)) in acc := r32 (!acc +. t)) arrs;
      !acc)

let rec chunks k sz (x : float list) : float list list =
  if k <= 0 then [] else
    let rec take n l = if n = 0 then ([], l) else
        match l with [] -> ([], []) | h :: t -> let (a, b) = take (n - 1) t in (h :: a, b) in
    let (a, b) = take sz x in a :: chunks (k - 1) sz b

let fam : (op, int, float list) M.opFamily = {
  M.f_argn = (function
    | Lin (r, _, _) -> r
    | Mul2 _ | Mul | Add -> M.ArgExact (nat_of_int 2)
    | Param _ | Input _ | Bern _ | Const _ -> M.ArgExact M.O
    | Stop | Split _ | MulC _ -> M.ArgExact (nat_of_int 1));
  f_retn = (function
    | Lin (_, r, _) -> nat_of_int r
    | Mul2 _ -> nat_of_int 2
    | Split k -> nat_of_int k
    | _ -> nat_of_int 1);
  f_inner = (function Param p -> Some (nat_of_int p) | _ -> None);
  f_dev = (function
    | Lin (_, _, d) | Mul2 d -> onat d
    | Param p -> Some (nat_of_int !pdev.(p))
    | Input (d, _) | Bern (d, _) | Const (d, _, _) -> Some (nat_of_int d)
    | Stop | Split _ | Mul | MulC _ | Add -> None);
  f_rand = (function Bern (d, n) -> Some (nat_of_int d, n_of_int (2 * n)) | _ -> None);
  f_nop = (function Input _ | Const _ | Bern _ | Stop -> true | _ -> false);
  f_shape = (fun o shs ->
    match o, shs with
    | Lin (_, r, _), (a :: rest) -> if List.for_all (fun b -> b = a) rest then Some (replicate r a) else None
    | Lin _, [] -> None
    | Mul2 _, [a; b] -> if a = b then Some [a; a] else None
    | Param p, _ -> Some [!psize.(p)]
    | Input (_, v), _ -> Some [List.length v]
    | Bern (_, n), _ -> Some [n]
    | Const (_, n, _), _ -> Some [n]
    | Stop, [a] -> Some [a]
    | MulC _, [a] -> Some [a]
    | Split k, [a] -> if k = 0 then None else if (a / k) * k <> a then None else Some (replicate k (a / k))
    | (Mul | Add), [a; b] -> if a = b then Some [a] else None
    | _, _ -> None);
  f_fw = (fun o pos xs ->
    match o, xs with
    | Lin (_, r, _), _ -> List.init r (fun j -> lin_out xs j)
    | Mul2 _, [a; b] -> [map2 (fun x y -> r32 (x *. y)) a b; map2 (fun x y -> r32 (x +. y)) a b]
    | Input (_, v), _ -> [v]
    | Bern (d, n), _ -> [bernoulli !streams.(d) (int_of_n pos) n]
    | Const (_, n, k), _ -> [replicate n k]
    | Stop, [x] -> [x]
    | Split k, [x] -> chunks k (List.length x / k) x
    | Mul, [a; b] -> [map2 (fun x y -> r32 (x *. y)) a b]
    | MulC k, [x] -> [List.map (fun a -> r32 (a *. k)) x]
    | Add, [a; b] -> [map2 (fun x y -> r32 (x +. y)) a b]
    | _, _ -> []);
  f_bw = (fun o xs _ys gys ->
    match o, xs, gys with
    | Lin _, _, _ ->
      (* inc_i = sum_j (i+j+1) * gy_j : the same sum with the roles of i and j exchanged *)
      List.mapi (fun i _ -> lin_out gys i) xs
    | Mul2 _, [a; b], [g0; g1] ->
      [ List.map2 (fun (g, x) h -> r32 (r32 (g *. x) +. h)) (List.combine g0 b) g1;
        List.map2 (fun (g, x) h -> r32 (r32 (g *. x) +. h)) (List.combine g0 a) g1 ]
    | Split _, _, _ -> [List.concat gys]
    | Mul, [a; b], [g] -> [map2 (fun k x -> r32 (k *. x)) g b; map2 (fun k x -> r32 (k *. x)) g a]
    | MulC k, _, [g] -> [List.map (fun x -> r32 (k *. x)) g]
    | Add, _, [g] -> [g; g]
    | _, _, _ -> []);
}

let vo : (int, float list) M.valOps = {
  M.vzeros = (fun n -> replicate n 0.0);
  vones = (fun n -> replicate n 1.0);
  vadd = (fun a b -> map2 (fun x y -> r32 (x +. y)) a b);
}

type world = (op, int, float list) M.world

exception Bad of string

let ios s = try int_of_string s with _ -> raise (Bad ("int " ^ s))
let nth l i = try List.nth l i with _ -> raise (Bad "nth")

(* ---- one history ---- *)
let run_history (line : string) : string =
  let toks = List.filter (fun s -> s <> "") (String.split_on_char ' ' line) in
  let steps =
    let rec go cur acc = function
      | [] -> List.rev (if cur = [] then acc else List.rev cur :: acc)
      | ";" :: r -> go [] (List.rev cur :: acc) r
      | t :: r -> go (t :: cur) acc r in
    List.filter (fun s -> s <> []) (go [] [] toks) in
  let seeds = ref [] and desc = ref false in
  let pv = ref [] and pg = ref [] and pd = ref [] in
  let out = Buffer.create 4096 in
  let w : world ref = ref { M.w_graphs = []; w_env = { M.e_pval = (fun _ -> []); e_pgrad = (fun _ -> []); e_pos = (fun _ -> M.N0) } } in
  let np = ref 0 and nd = ref 0 in
  (* (g, oid) -> observable?, and the addressable nodes per graph in creation order *)
  let obs : (int * int, bool) Hashtbl.t = Hashtbl.create 64 in
  let addr : (int * int) list array ref = ref [||] in   (* per graph: (oid, nrets), newest first *)
  let flen = ref [||] and blen = ref [||] in
  let lastp = ref (Some "") in
  let started = ref false in
  let snapshot () =
    let e = !w.M.w_env in
    String.concat ";" (List.init !np (fun p -> hexv (e.M.e_pval (nat_of_int p)) ^ "/" ^ hexv (e.M.e_pgrad (nat_of_int p)))) in
  let tail () =
    let b = Buffer.create 64 in
    let fs = ref [] and bs = ref [] in
    List.iteri (fun gi (g : (op, int, float list) M.gstate) ->
      let delta (l : M.nat list) (seen : int array) (acc : string list ref) =
        let n = List.length l in
        if n > seen.(gi) then begin
          List.iteri (fun i o -> if i >= seen.(gi) then begin
            let oi = int_of_nat o in
            if (try Hashtbl.find obs (gi, oi) with Not_found -> true) then
              acc := (string_of_int gi ^ ":" ^ string_of_int oi) :: !acc end) l;
          seen.(gi) <- n
        end in
      delta g.M.g_log !flen fs; delta g.M.g_blog !blen bs) !w.M.w_graphs;
    if !fs <> [] then Buffer.add_string b (" F=" ^ String.concat "," (List.rev !fs));
    if !bs <> [] then Buffer.add_string b (" B=" ^ String.concat "," (List.rev !bs));
    let p = snapshot () in
    if Some p <> !lastp then begin Buffer.add_string b (" P=" ^ p); lastp := Some p end;
    Buffer.contents b in
  let start () =
    if not !started then begin
      started := true;
      streams := Array.of_list (List.map mt_make (List.rev !seeds));
      nd := Array.length !streams;
      let vals = Array.of_list (List.rev !pv) and grads = Array.of_list (List.rev !pg) in
      pdev := Array.of_list (List.rev !pd);
      psize := Array.map List.length vals;
      np := Array.length vals;
      w := { M.w_graphs = [];
             w_env = { M.e_pval = (fun p -> let i = int_of_nat p in if i < !np then vals.(i) else []);
                       e_pgrad = (fun p -> let i = int_of_nat p in if i < !np then grads.(i) else []);
                       e_pos = (fun _ -> M.N0) } };
      Buffer.add_string out ("init" ^ tail ())
    end in
  let ngraphs () = List.length !w.M.w_graphs in
  let graph gi : (op, int, float list) M.gstate =
    if gi < 0 || gi >= ngraphs () then raise (Bad "graph") else nth !w.M.w_graphs gi in
  let nops gi = List.length (graph gi).M.g_ops in
  let dev s = if s = "-" then None else (let d = ios s in if d < 0 || d >= !nd then raise (Bad "device") else Some d) in
  let dev1 s = match dev s with Some d -> d | None -> raise (Bad "device") in
  let param s = let p = ios s in if p < 0 || p >= !np then raise (Bad "param") else p in
  (* a node must be addressable (the harness holds a Node object for it) *)
  let node g o v : M.node =
    let gi = ios g and oi = ios o and vi = ios v in
    if gi < 0 || gi >= ngraphs () then raise (Bad "node");
    (match List.assoc_opt oi !addr.(gi) with
     | Some n when vi >= 0 && vi < n -> ()
     | _ -> raise (Bad "node"));
    (nat_of_int gi, (nat_of_int oi, nat_of_int vi)) in
  let args s = List.map (fun t -> match String.split_on_char ':' t with
      | [g; o; v] -> node g o v | _ -> raise (Bad "arg")) (split_on ',' s) in
  let slot_of (n : M.node) =
    let (g, a) = n in
    match M.get_slot (graph (int_of_nat g)) a with Some s -> s | None -> raise (Bad "slot") in
  (* run one command; Ok -> world replaced *)
  let cmd c = match M.run_cmd fam vo !w c with
    | M.Ok w' -> w := w'; "ok"
    | M.Error -> "err"
    | M.Abort -> "abort" in
  let value_of gi (oi, vi) : float list =
    let g = graph gi in
    match M.nth_error g.M.g_ops (nat_of_int oi) with
    | None -> raise (Bad "value")
    | Some inf ->
      (match fam.M.f_inner inf.M.o_op with
       | Some p -> !w.M.w_env.M.e_pval p          (* read through the live store *)
       | None ->
         (match M.nth_error inf.M.o_rets (nat_of_int vi) with
          | Some { M.s_val = Some v; _ } -> v
          | _ -> raise (Bad "no value after forward"))) in
  let peek d =
    let pos = int_of_n (!w.M.w_env.M.e_pos (nat_of_int d)) in
    let mask = String.concat "" (List.map (fun x -> if x = 1.0 then "1" else "0") (bernoulli !streams.(d) pos 4)) in
    ignore (cmd (M.CDraw (nat_of_int d, n_of_int 8)));
    mask in
  let add_one gi (o : op) (as_ : M.node list) (observable : bool) (addressable : bool) : string =
    let before = nops gi in
    let r = cmd (M.CAdd (nat_of_int gi, o, as_)) in
    if r = "ok" then begin
      Hashtbl.replace obs (gi, before) observable;
      let nret = match M.nth_error (graph gi).M.g_ops (nat_of_int before) with
        | Some inf -> List.length inf.M.o_rets | None -> 0 in
      if addressable then !addr.(gi) <- (before, nret) :: !addr.(gi)
    end;
    r in
  let add (t : string list) : string =
    match t with
    | [_; g; spec; a] ->
      let gi = ios g in
      ignore (graph gi);
      let sp = String.split_on_char ':' spec in
      let as_ = args a in
      let own () = List.iter (fun ((g', _) : M.node) -> if int_of_nat g' <> gi then raise (Bad "f-arg-graph")) as_ in
      let argc n = if List.length as_ <> n then raise (Bad "f-argc") in
      (match sp with
       | ["lin"; r; k; d] ->
         let req = if r = "A" then M.ArgAny else if r = "N" then M.ArgNonZero else M.ArgExact (nat_of_int (ios r)) in
         add_one gi (Lin (req, ios k, dev d)) as_ true true
       | ["mul2"; d] -> add_one gi (Mul2 (dev d)) as_ true true
       | ["c.param"; p] -> add_one gi (Param (param p)) as_ true true
       | ["c.input"; d; v] -> add_one gi (Input (dev1 d, unhexv v)) as_ true true
       | ["c.bern"; d; n] -> add_one gi (Bern (dev1 d, ios n)) as_ true true
       | ["c.const"; d; n; k] -> add_one gi (Const (dev1 d, ios n, unhex k)) as_ true true
       | ["c.stop"] -> add_one gi Stop as_ true true
       | ["c.split"; k] -> add_one gi (Split (ios k)) as_ true true
       | ["c.mul"] -> add_one gi Mul as_ true true
       | ["c.mulc"; k] -> add_one gi (MulC (unhex k)) as_ true true
       | ["c.add"] -> add_one gi Add as_ true true
       | ["f.param"; p] -> own (); argc 0; add_one gi (Param (param p)) as_ false true
       | ["f.input"; d; v] -> own (); argc 0; add_one gi (Input (dev1 d, unhexv v)) as_ false true
       | ["f.bern"; d; n] -> own (); argc 0; add_one gi (Bern (dev1 d, ios n)) as_ false true
       | ["f.stop"] -> own (); argc 1; add_one gi Stop as_ false true
       | ["f.split"; k] -> own (); argc 1; add_one gi (Split (ios k)) as_ false true
       | ["f.mul"] -> own (); argc 2; add_one gi Mul as_ false true
       | ["f.add"] -> own (); argc 2; add_one gi Add as_ false true
       | ["f.dropout"] ->
         (* functions::dropout(x, 0.5, true) = (1/p) * x * bernoulli(x.shape(), p, x.device()):
            g++ 11 evaluates the right operand of the outer operator* first, so the operators
            are created in the order RandomBernoulli (oid n), MultiplyConst(2) (n+1),
            Multiply(n+1, n) (n+2) (checked with Graph::dump on the real code); only the
            result node is returned to the caller. *)
         own (); argc 1;
         let x = List.hd as_ in
         let s = slot_of x in
         let n0 = nops gi in
         let saved = !w in
         let gn = nat_of_int gi in
         let r1 = add_one gi (Bern (int_of_nat s.M.s_dev, s.M.s_shape)) [] false false in
         let r2 = if r1 = "ok" then add_one gi (MulC 2.0) [x] false false else r1 in
         let r3 = if r2 = "ok" then add_one gi Mul [(gn, (nat_of_int (n0 + 1), M.O)); (gn, (nat_of_int n0, M.O))] false true else r2 in
         if r3 <> "ok" then w := saved;
         r3
       | _ -> raise (Bad ("opspec " ^ spec)))
    | _ -> raise (Bad "add") in
  let grow () =
    addr := Array.append !addr [| [] |];
    flen := Array.append !flen [| 0 |];
    blen := Array.append !blen [| 0 |] in
  let step (t : string list) : string =
    match t with
    | ["new"] -> let r = cmd M.CNewGraph in grow (); r
    | "add" :: _ -> add t
    | ["val"; g; o; v] ->
      let (gn, a) = node g o v in
      let r = cmd (M.CForward (gn, a)) in
      if r = "ok" then "ok v=" ^ hexv (value_of (ios g) (ios o, ios v)) else r
    | ["bwd"; g; o; v] -> let (gn, a) = node g o v in cmd (M.CBackward (gn, a))
    | ["upd"; lr] ->
      (* SGD(eta = 1): value -= (scale * eta) * gradient *)
      let k = r32 (unhex lr *. 1.0) in
      if unhex lr < 0.0 then "err"   (* set_learning_rate_scaling rejects negative values *)
      else cmd (M.CUpdate (List.init !np nat_of_int,
                      (fun _ v g -> map2 (fun x y -> r32 (x -. r32 (k *. y))) v g)))
    | ["reset"] -> cmd (M.CReset (List.init !np (fun p -> (nat_of_int p, !psize.(p)))))
    | ["resetp"; p] -> let p = param p in cmd (M.CReset [(nat_of_int p, !psize.(p))])
    | ["setgrad"; p; v] ->
      let p = param p and v = unhexv v in
      if List.length v <> !psize.(p) then raise (Bad "setgrad size");
      cmd (M.CSetGrad (nat_of_int p, v))
    | ["peek"; d] -> let d = dev1 d in "ok k=" ^ peek d
    | f :: _ -> raise (Bad ("step " ^ f))
    | [] -> raise (Bad "empty") in
  List.iter (fun t ->
    let header =
      if !started then false else
        match t with
        | ["dev"; s] -> seeds := List.rev_append (List.map ios (split_on ',' s)) !seeds; true
        | ["order"; s] -> desc := (s = "d"); true
        | ["param"; d; v; g] ->
          let v = unhexv v and g = unhexv g in
          let d = ios d in
          if d < 0 || d >= List.length !seeds || v = [] || List.length v <> List.length g then raise (Bad "param");
          pv := v :: !pv; pg := g :: !pg; pd := d :: !pd; true
        | _ -> false in
    if not header then begin
      start ();
      let r = try step t with Bad s -> "badcase(" ^ s ^ ")" in
      Buffer.add_string out (" | " ^ r ^ tail ())
    end) steps;
  start ();
  (* re-read every addressable node: a sequence of CForward commands *)
  Array.iteri (fun gi l ->
    let l = if !desc then l else List.rev l in
    List.iter (fun (oi, n) ->
      for vi = 0 to n - 1 do
        let r = cmd (M.CForward (nat_of_int gi, (nat_of_int oi, nat_of_int vi))) in
        let r = if r = "ok" then "ok v=" ^ hexv (value_of gi (oi, vi)) else r in
        Buffer.add_string out (Printf.sprintf " | r %d:%d:%d %s%s" gi oi vi r (tail ()))
      done) l) !addr;
  for d = 0 to !nd - 1 do
    Buffer.add_string out (Printf.sprintf " | k %d %s" d (peek d))
  done;
  Buffer.contents out

let () =
  iter_lines (fun line ->
    let o = try run_history line with
      | Bad s -> "badcase(" ^ s ^ ")"
      | e -> "other-exception " ^ Printexc.to_string e in
    print_string o; print_newline ())
