(* Reads the C20 probe cases (same lines as harness/capi_drv.cc), evaluates the extracted Coq
   model over the REGENERATED table (Gen/CApiTable.v), prints one canonical line per case. *)
let bit b k = if b then 1 lsl k else 0
let char_of_ascii (M.Ascii (b0, b1, b2, b3, b4, b5, b6, b7)) =
  Char.chr (bit b0 0 + bit b1 1 + bit b2 2 + bit b3 3 + bit b4 4 + bit b5 5 + bit b6 6 + bit b7 7)
let ascii_of_char c =
  let n = Char.code c in
  let b k = (n lsr k) land 1 = 1 in
  M.Ascii (b 0, b 1, b 2, b 3, b 4, b 5, b 6, b 7)
let rec ocaml_of_cstring = function
  | M.EmptyString -> ""
  | M.String (a, r) -> String.make 1 (char_of_ascii a) ^ ocaml_of_cstring r
let ocaml_of_chars l = String.concat "" (List.map (fun a -> String.make 1 (char_of_ascii a)) l)
let int_of_z = function
  | M.Z0 -> 0
  | M.Zpos p -> Z.to_int (z_of_pos p)
  | M.Zneg p -> - (Z.to_int (z_of_pos p))
let n_of_int i = n_of_z (Z.of_int i)
let int_of_n n = Z.to_int (z_of_n n)

let hcode = M.lookup_helper M.helper_table
let hf = M.handler_code
let tbl : (string, M.wrapper) Hashtbl.t = Hashtbl.create 512
let () = List.iter (fun w -> Hashtbl.replace tbl (ocaml_of_cstring w.M.w_name) w) M.table
let find name = try Some (Hashtbl.find tbl name) with Not_found -> None
let opt_nat = function "-" -> None | s -> Some (nat_of_int (int_of_string s))

let pr_exp = function
  | M.ExpOk -> "ok"
  | M.ExpError m -> "err " ^ ocaml_of_cstring m
  | M.ExpSizeQuery -> "sizequery"
  | M.ExpBad w -> "model-predicts:" ^ ocaml_of_cstring w

let helper_of w =
  let rec go = function
    | [] -> None
    | ev :: r -> (match ev.M.ev_use with M.UBuf (h, M.SizeParam _) -> Some h | _ -> go r) in
  go w.M.w_events

let rec firstn k l = if k <= 0 then [] else match l with [] -> [] | x :: r -> x :: firstn (k - 1) r
let rec skipn k l = if k <= 0 then l else match l with [] -> [] | _ :: r -> skipn (k - 1) r
let rec range a b = if a > b then [] else a :: range (a + 1) b

let sq name l mode =
  match find name with
  | None -> "unknown-function"
  | Some w ->
    match helper_of w with
    | None -> "unknown-function"
    | Some h ->
      let hc = hcode h in
      let is_str = (match h with M.HCopyString -> true | _ -> false) in
      let payload = range 1 l @ (if is_str then [0] else []) in
      let need = List.length payload in
      if mode = "null" then
        (match M.spec_helper hc.M.hc_msg payload None (n_of_int 123456789) with
         | M.HOk (_, size) -> "ok size=" ^ string_of_n size
         | M.HThrow m -> "err " ^ ocaml_of_cstring m)
      else if mode = "short" && need = 0 then "na"
      else if mode = "one" && need <= 1 then "na"
      else
        let cap = (match mode with "short" -> need - 1 | "exact" -> need | "zero" -> 0 | "one" -> 1 | _ -> need + 3) in
        let contents = List.map (fun _ -> -1) (range 1 (cap + 16)) in
        (match M.spec_helper hc.M.hc_msg payload (Some contents) (n_of_int cap) with
         | M.HThrow m -> "err " ^ ocaml_of_cstring m
         | M.HOk (None, _) -> "model-predicts:no-buffer"
         | M.HOk (Some out, size) ->
           Printf.sprintf "ok size=%s data=%s rest=%s" (string_of_n size)
             (if firstn need out = payload then "eq" else "DIFFERENT")
             (if skipn need out = skipn need contents && List.length out = List.length contents
              then "kept" else "TOUCHED"))

let pr_status z = match int_of_z z with 0 -> "ok" | -1 -> "err" | k -> "status:" ^ string_of_int k
let until_nul s = try String.sub s 0 (String.index s '\000') with Not_found -> s

let trace spec =
  let ops = String.split_on_char ',' spec in
  let st = ref (M.init_state hf) in
  let one o =
    match String.split_on_char ':' o with
    | t :: rest ->
      let tid = nat_of_int (int_of_string t) in
      let act, post =
        (match rest with
         | ["fail"; f; k] ->
           (match find f with
            | Some w -> M.ACall (w, M.valid_env w (Some (nat_of_int (int_of_string k))) None, None), `Status
            | None -> M.AReset, `Unknown)
         | ["ok"; f] ->
           (match find f with
            | Some w -> M.ACall (w, M.valid_env w None None, None), `Status
            | None -> M.AReset, `Unknown)
         | ["reset"] -> M.AReset, `Status
         | ["get"] -> M.AGetMessage (Some (List.map (fun _ -> ascii_of_char 'Z') (range 1 2048)), Some (n_of_int 2048)), `Msg
         | ["getq"] -> M.AGetMessage (None, Some (n_of_int 0)), `Size
         | ["getshort"] -> M.AGetMessage (Some [ascii_of_char 'Z'], Some (n_of_int 1)), `Status
         | ["getnull"] -> M.AGetMessage (Some [ascii_of_char 'Z'], None), `Status
         | _ -> M.AReset, `Unknown) in
      if post = `Unknown then "unknown-function"
      else begin
        let before = ocaml_of_cstring (!st tid) in
        let (ob, s') = M.step hcode hf !st tid act in
        st := s';
        match ob, post with
        | M.OStatus z, _ -> pr_status z
        | M.OMessage (z, Some out, _), `Msg when int_of_z z = 0 -> "msg=" ^ until_nul (ocaml_of_chars out)
        | M.OMessage (z, None, n), `Size when int_of_z z = 0 ->
          if int_of_n n = String.length before + 1 then "sizeok" else "size-wrong"
        | M.OMessage (z, _, _), _ -> pr_status z
        | M.OBroken, _ -> "model-predicts:broken"
      end
    | [] -> "bad-op" in
  String.concat "|" (List.map one ops)

let diag name =
  match find name with
  | None -> "unknown-function"
  | Some w ->
    let d = M.diagnose w in
    let d = if M.store_last w.M.w_events then d else d @ [(M.String (ascii_of_char 's', M.EmptyString), M.O)] in
    if d = [] then "-"
    else String.concat "," (List.map (fun (c, p) ->
        let c = ocaml_of_cstring c in
        (if c = "s" then "store_last" else c) ^ ":" ^ string_of_int (int_of_nat p)) d)

let eval toks =
  match toks with
  | ["null"; f; k] -> (match find f with Some w -> pr_exp (M.expect hcode hf w (opt_nat k) None) | None -> "unknown-function")
  | ["elem"; f; k] -> (match find f with Some w -> pr_exp (M.expect hcode hf w None (opt_nat k)) | None -> "unknown-function")
  | ["sq"; f; l; mode] -> sq f (int_of_string l) mode
  | ["trace"; spec] -> trace spec
  | ["diag"; f] -> diag f
  | ["names"] -> String.concat "," (List.map (fun w -> ocaml_of_cstring w.M.w_name) M.table)
  | _ -> "badcase"

let () =
  iter_lines (fun line ->
    let toks = List.filter (fun s -> s <> "") (String.split_on_char ' ' line) in
    print_endline (eval toks))
