(* Shared glue, textually included after `module M = <extracted module>`.
   Conversions between decimal strings and the extracted N/positive (kept as the
   extracted inductive types; zarith is used only for parsing and printing). *)
let rec pos_of_z (z : Z.t) : M.positive =
  if Z.equal z Z.one then M.XH
  else if Z.testbit z 0 then M.XI (pos_of_z (Z.shift_right z 1))
  else M.XO (pos_of_z (Z.shift_right z 1))
let n_of_z z = if Z.sign z = 0 then M.N0 else M.Npos (pos_of_z z)
let rec z_of_pos = function
  | M.XH -> Z.one
  | M.XO p -> Z.shift_left (z_of_pos p) 1
  | M.XI p -> Z.succ (Z.shift_left (z_of_pos p) 1)
let z_of_n = function M.N0 -> Z.zero | M.Npos p -> z_of_pos p
let n_of_string s = n_of_z (Z.of_string s)
let string_of_n n = Z.to_string (z_of_n n)
let split_on c s = if s = "" || s = "-" then [] else String.split_on_char c s
let nlist_of_string s = List.map n_of_string (split_on ',' s)
let string_of_nlist l = String.concat "," (List.map string_of_n l)
let rec nat_of_int i = if i <= 0 then M.O else M.S (nat_of_int (i - 1))
let rec int_of_nat = function M.O -> 0 | M.S n -> 1 + int_of_nat n
let iter_lines f =
  try while true do f (input_line stdin) done with End_of_file -> ()
