(* Decides accept / reject (and, for the forward entry points, the shape of the allocated output)
   of every Device entry point exercised by harness/tensor_drv.cc with the EXTRACTED front-end
   model (coq/Tensor/FrontEnd.v).  Same case lines as tensor_drv.cc / tensor_driver.ml.
   Output per case:  "ok <dims>:<batch>"  accepted forward call with one output tensor
                     "ok"                 accepted call of any other kind
                     "err"                the front end raises primitiv::Error
                     "argerr"             an argument shape cannot even be constructed *)
exception Argerr
exception Err
let shape_of_string s =
  match String.split_on_char ':' s with
  | [ds; b] -> (match M.mk_shape (nlist_of_string ds) (n_of_string b) with
                | Some sh -> sh | None -> raise Argerr)
  | _ -> failwith ("bad shape " ^ s)
let shapes_of_string s = List.map shape_of_string (split_on ';' s)
let n = n_of_string
let ids = nlist_of_string
let pr_shape (sh : M.shape) = Printf.sprintf "%s:%s" (string_of_nlist sh.M.dims) (string_of_n sh.M.batch)
let get = function Some x -> x | None -> raise Err
let fw o = "ok " ^ pr_shape (get o)
let acc o = ignore (get o); "ok"
let eval toks =
  match toks with
  | ["slice_fw"; sx; dim; lo; up] -> fw (M.fe_slice_fw (shape_of_string sx) (n dim) (n lo) (n up))
  | ["slice_bw"; sgy; sgx; dim; off] ->
      let gy = shape_of_string sgy in let gx = shape_of_string sgx in
      acc (M.fe_slice_bw gy (n dim) (n off) gx)
  | ["pick_fw"; sx; is; dim] -> fw (M.fe_pick_fw (shape_of_string sx) (ids is) (n dim))
  | ["pick_bw"; sgy; sgx; is; dim] ->
      let gy = shape_of_string sgy in let gx = shape_of_string sgx in
      acc (M.fe_pick_bw gy (ids is) (n dim) gx)
  | ["concat_fw"; xs; dim] -> fw (M.fe_concat_fw (shapes_of_string xs) (n dim))
  | ["broadcast_fw"; sx; dim; sz] -> fw (M.fe_broadcast_fw (shape_of_string sx) (n dim) (n sz))
  | ["flip_fw"; sx; dim] -> fw (M.fe_flip_fw (shape_of_string sx) (n dim))
  | ["flip_bw"; sx; dim] -> let s = shape_of_string sx in acc (M.fe_flip_bw s (n dim) s)
  | ["transpose_fw"; sx] -> fw (M.fe_transpose_fw (shape_of_string sx))
  | ["transpose_bw"; sx] ->
      let x = shape_of_string sx in let y = get (M.fe_transpose_fw x) in
      acc (M.fe_transpose_bw x y y x)
  | ["permute_fw"; sx; perm] -> fw (M.fe_permute_dims_fw (shape_of_string sx) (ids perm))
  | ["permute_bw"; sx; perm] ->
      let x = shape_of_string sx in let y = get (M.fe_permute_dims_fw x (ids perm)) in
      acc (M.fe_permute_dims_bw x y y (ids perm) x)
  | ["batch_pick_fw"; sx; is] -> fw (M.fe_batch_pick_fw (shape_of_string sx) (ids is))
  | ["batch_pick_bw"; sgy; sgx; is] ->
      let gy = shape_of_string sgy in let gx = shape_of_string sgx in
      acc (M.fe_batch_pick_bw gy (ids is) gx)
  | ["batch_slice_fw"; sx; lo; up] -> fw (M.fe_batch_slice_fw (shape_of_string sx) (n lo) (n up))
  | ["batch_slice_bw"; sgy; sgx; off] ->
      let gy = shape_of_string sgy in let gx = shape_of_string sgx in
      acc (M.fe_batch_slice_bw gy (n off) gx)
  | ["batch_concat_fw"; xs] -> fw (M.fe_batch_concat_fw (shapes_of_string xs))
  | [("sum_fw" | "max_fw" | "min_fw"); sx; dim] -> fw (M.fe_reduce_fw (shape_of_string sx) (n dim))
  | [("max_bw" | "min_bw"); sx; dim] ->
      let x = shape_of_string sx in let y = get (M.fe_reduce_fw x (n dim)) in
      acc (M.fe_reduce_bw x y y (n dim) x)
  | [("argmax" | "argmin"); sx; dim] -> acc (M.fe_argmax (shape_of_string sx) (n dim))
  | ["batch_sum_fw"; sx] -> fw (M.fe_batch_sum_fw (shape_of_string sx))
  | [("add_fw" | "sub_fw" | "mul_fw"); sa; sb] ->
      let a = shape_of_string sa in let b = shape_of_string sb in fw (M.fe_elementwise_fw a b)
  | [("adds_fw" | "subsr_fw" | "subsl_fw" | "muls_fw"); sx; sk] ->
      let x = shape_of_string sx in let k = shape_of_string sk in fw (M.fe_scalar_fw x k)
  | [("add_bw" | "sub_bw" | "mul_bw"); sa; sb] ->
      let a = shape_of_string sa in let b = shape_of_string sb in
      let y = get (M.fe_elementwise_fw a b) in acc (M.fe_elementwise_bw a b y y a b)
  | [("inplace_add" | "inplace_sub"); sx; sy] ->
      let x = shape_of_string sx in let y = shape_of_string sy in acc (M.fe_inplace_add x y)
  | ["matmul_fw"; sa; sb] ->
      let a = shape_of_string sa in let b = shape_of_string sb in fw (M.fe_matmul_fw a b)
  | ["matmul_bw"; sa; sb] ->
      let a = shape_of_string sa in let b = shape_of_string sb in
      let y = get (M.fe_matmul_fw a b) in acc (M.fe_matmul_bw a b y y a b)
  | [("conv2d_fw" | "conv2d_bw") as op; sx; sw; p0; p1; s0; s1; d0; d1] ->
      let x = shape_of_string sx in let w = shape_of_string sw in
      let yo = M.fe_conv2d_fw x w (n p0) (n p1) (n s0) (n s1) (n d0) (n d1) in
      if op = "conv2d_fw" then fw yo
      else let y = get yo in acc (M.fe_conv2d_bw x w y y (n p0) (n p1) (n s0) (n s1) (n d0) (n d1) x w)
  | [("pool_fw" | "pool_bw") as op; sx; w0; w1; p0; p1; s0; s1] ->
      let x = shape_of_string sx in
      let yo = M.fe_max_pool2d_fw x (n w0) (n w1) (n p0) (n p1) (n s0) (n s1) in
      if op = "pool_fw" then fw yo
      else let y = get yo in acc (M.fe_max_pool2d_bw x y y (n w0) (n w1) (n p0) (n p1) (n s0) (n s1) x)
  | _ -> "badcase"
let () =
  iter_lines (fun line ->
    let toks = List.filter (fun s -> s <> "") (String.split_on_char ' ' line) in
    print_endline (try eval toks with Argerr -> "argerr" | Err -> "err" | Failure m -> "model-failure " ^ m))
